(* C15, population scale, at the initial state: multiplying every value of the declared distribution by k multiplies
   every entry of the initial population by k - through any number of stratifications (any splits) and population-split
   adjustments. *)
From Coq Require Import QArith Field Ring List String Bool Arith Lia.
Import ListNotations.
From S2 Require Import Base.Num Base.Arr Model.Expr Model.Struct Model.InitPop
     Proofs.ArrLemmas Proofs.NumLemmas Proofs.InitProofs Proofs.InitBridge Proofs.RebalanceProofs Proofs.Scaling.
Local Open Scope nat_scope.
Local Notation length := List.length.

Section PopScale.
Variable O : NumOps.
Variable T : NumTheory O.
Notation F := (F O).
Add Field Fps : (Fth O T).

Variables (p : env O) (k : F).

Definition scale_pairs (cvs : list (comp * F)) : list (comp * F) := map (fun cv => (fst cv, fmul O k (snd cv))) cvs.

Lemma sv_spec_scale s cvs : sv_spec O p s (scale_pairs cvs) = scale_pairs (sv_spec O p s cvs).
Proof.
  unfold sv_spec, scale_pairs. induction cvs as [|cv cvs IH]; cbn [map flat_map]; [reflexivity|].
  rewrite map_app, <- IH. f_equal. cbn [fst snd].
  destruct (has_name_in_list (fst cv) (s_comps s)); cbn [map]; [|reflexivity].
  rewrite map_map. apply map_ext. intro st. cbn [fst snd]. f_equal. ring.
Qed.

(* the adjustment is linear in the population *)
Lemma decided_scale m pop sname props groups j acc :
  decided O p m (vscale O k pop) sname props groups j (fmul O k acc) = fmul O k (decided O p m pop sname props groups j acc).
Proof.
  revert acc. induction groups as [|g t IH]; intro acc; cbn [decided]; [reflexivity|].
  assert (Eg : group_total O m (vscale O k pop) g = fmul O k (group_total O m pop g)).
  { unfold group_total. rewrite (gather_vscale O T), (fsum_vscale O T). reflexivity. }
  rewrite Eg.
  destruct (existsb (Nat.eqb j) (members m g)); [|apply IH].
  destruct (new_prop O p m sname props j) as [pr|]; [|apply IH].
  replace (fmul O (fmul O k (group_total O m pop g)) pr) with (fmul O k (fmul O (group_total O m pop g) pr)) by ring. apply IH.
Qed.

Lemma nth_vscale (l : list F) j : j < length l -> nth j (vscale O k l) (f0 O) = fmul O k (nth j l (f0 O)).
Proof.
  intro Hj. unfold vscale. rewrite (nth_indep _ (f0 O) (fmul O k (f0 O))) by (rewrite map_length; exact Hj).
  apply (map_nth (fmul O k)).
Qed.

Lemma rebalance_scale m pop sname filt props :
  rebalance O p m (vscale O k pop) sname filt props = vscale O k (rebalance O p m pop sname filt props).
Proof.
  assert (Lv : length (vscale O k pop) = length pop) by (unfold vscale; apply map_length).
  apply (nth_ext _ _ (f0 O) (f0 O)).
  - rewrite (rebalance_length O p), Lv. unfold vscale. rewrite map_length. symmetry. apply (rebalance_length O p).
  - intros j Hj. rewrite (rebalance_length O p), Lv in Hj.
    rewrite (rebalance_nth O p m (vscale O k pop) sname filt props j) by (rewrite Lv; exact Hj).
    rewrite (nth_vscale pop j Hj), decided_scale.
    rewrite (nth_vscale (rebalance O p m pop sname filt props) j) by (rewrite (rebalance_length O p); exact Hj).
    rewrite (rebalance_nth O p m pop sname filt props j Hj). reflexivity.
Qed.

Lemma ip_step_scale m cvs a : ip_step O p m (scale_pairs cvs) a = scale_pairs (ip_step O p m cvs a).
Proof.
  destruct a as [s|sname filt props]; cbn [ip_step]; [apply sv_spec_scale|].
  unfold scale_pairs. rewrite !map_map. cbn [fst snd].
  replace (map (fun x => fmul O k (snd x)) cvs) with (vscale O k (map snd cvs)) by (unfold vscale; rewrite map_map; reflexivity).
  rewrite rebalance_scale.
  generalize (rebalance O p m (map snd cvs) sname filt props). intro r.
  unfold vscale. revert r. induction cvs as [|cv cvs IH]; intros [|v r]; cbn; try reflexivity. rewrite IH. reflexivity.
Qed.

Theorem replay_scale m acts cvs :
  fold_left (ip_step O p m) acts (scale_pairs cvs) = scale_pairs (fold_left (ip_step O p m) acts cvs).
Proof.
  revert cvs. induction acts as [|a acts IH]; intro cvs; cbn [fold_left]; [reflexivity|].
  rewrite ip_step_scale. apply IH.
Qed.

End PopScale.

(* ---------------------------------------------------------------- the model with its declared distribution multiplied by k *)
Definition scale_dist (m : model) (kq : Q) : model :=
  {| m_times := m_times m; m_comps := m_comps m; m_orig := m_orig m; m_infectious := m_infectious m;
     m_flows := m_flows m; m_strats := m_strats m; m_mixcats := m_mixcats m; m_strains := m_strains m;
     m_actions := m_actions m;
     m_initpop := option_map (map (fun ne : string * expr => (fst ne, EMul (EConst kq) (snd ne)))) (m_initpop m);
     m_arraypop := m_arraypop m;
     m_requests := m_requests m; m_whitelist := m_whitelist m; m_cvs := m_cvs m;
     m_defaults := m_defaults m; m_finalized := m_finalized m |}.

Section ModelScale.
Variable O : NumOps.
Variable T : NumTheory O.
Notation F := (F O).
Add Field Fms : (Fth O T).

Lemma assoc_map_snd {A B} (g : A -> B) n (d : list (string * A)) :
  assoc n (map (fun ne => (fst ne, g (snd ne))) d) = option_map g (assoc n d).
Proof. induction d as [|[n' a] d IH]; cbn; [reflexivity|]. destruct (String.eqb n n'); [reflexivity|exact IH]. Qed.

Lemma initial_pairs_scale (p : env O) m kq :
  initial_pairs O p (scale_dist m kq) = scale_pairs O (of_Q O kq) (initial_pairs O p m).
Proof.
  unfold initial_pairs, scale_pairs. cbn [scale_dist m_initpop m_orig]. rewrite map_map. apply map_ext. intro n. cbn [fst snd]. f_equal.
  destruct (m_initpop m) as [d|]; cbn [option_map].
  - rewrite assoc_map_snd. destruct (assoc n d) as [e|]; cbn [option_map]; [unfold static_eval; cbn [eval]; reflexivity | ring].
  - cbn. ring.
Qed.

Theorem initial_population_scales (p : env O) (m : model) (kq : Q) :
  m_arraypop m = None ->
  initial_population O (scale_dist m kq) p = vscale O (of_Q O kq) (initial_population O m p).
Proof.
  intro Harr.
  rewrite (initial_population_replay O p (scale_dist m kq) Harr), (initial_population_replay O p m Harr).
  cbn [scale_dist m_actions].
  change (ip_step O p (scale_dist m kq)) with (ip_step O p m).
  rewrite initial_pairs_scale, (replay_scale O T p (of_Q O kq)).
  unfold scale_pairs, vscale. rewrite !map_map. reflexivity.
Qed.

End ModelScale.
