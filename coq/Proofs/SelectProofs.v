(* C13 on the model: every selection mechanism of the code (frozenset subset, per-key lookup,
   conjunction of has_stratum) decides "name equal and strata contain the filter", and every
   selecting API is a filter by that predicate in model order. *)
From Coq Require Import List String Bool Arith Lia.
Import ListNotations.
From S2 Require Import Base.Num Base.Arr Model.Expr Model.Struct Model.Derived Spec.SelectSpec.
Local Open Scope nat_scope.
Local Notation length := List.length.

Lemma pair_eqb_spec a b : pair_eqb a b = true <-> a = b.
Proof.
  unfold pair_eqb. destruct a as [a1 a2], b as [b1 b2]. cbn. rewrite andb_true_iff, !String.eqb_eq.
  split; [intros [-> ->]; reflexivity | intro E; injection E; auto].
Qed.

Lemma has_pair_spec s kv : has_pair s kv = true <-> In kv s.
Proof.
  unfold has_pair. rewrite existsb_exists. split.
  - intros [x [Hx E]]. apply pair_eqb_spec in E. subst. exact Hx.
  - intro H. exists kv. split; [exact H | apply pair_eqb_spec; reflexivity].
Qed.

Lemma has_strata_spec c filt : has_strata c filt = true <-> strata_contain (c_strata c) filt.
Proof.
  unfold has_strata, strata_contain. rewrite forallb_forall. split; intros H kv Hin.
  - apply has_pair_spec, H, Hin.
  - apply has_pair_spec, H, Hin.
Qed.

Lemma is_match_spec c name filt : is_match c name filt = true <-> selects_comp name filt c.
Proof.
  unfold is_match, selects_comp. rewrite andb_true_iff, String.eqb_eq, has_strata_spec.
  split; intros [H1 H2]; split; auto.
Qed.

(* dictionary lookup agrees with pair membership when the keys are unique *)
Lemma strata_get_in s k v : NoDup (map fst s) -> (strata_get s k = Some v <-> In (k, v) s).
Proof.
  induction s as [|[k' v'] s IH]; cbn; intro Hnd; [split; [discriminate|intros []]|].
  inversion Hnd as [|? ? Hni Hnd']; subst. destruct (String.eqb_spec k k') as [->|Hne].
  - split.
    + intro E. injection E as ->. left; reflexivity.
    + intros [E|Hin]; [injection E as ->; reflexivity|].
      exfalso. apply Hni. apply (in_map fst) in Hin. exact Hin.
  - rewrite (IH Hnd'). split; [intro; right; assumption|].
    intros [E|Hin]; [injection E; congruence|exact Hin].
Qed.

Lemma query_match_spec c filt :
  NoDup (map fst (c_strata c)) -> (query_match c filt = true <-> strata_contain (c_strata c) filt).
Proof.
  intro Hnd. unfold query_match, strata_contain. rewrite forallb_forall. split; intros H kv Hin.
  - specialize (H kv Hin). destruct kv as [k v]. cbn [fst snd] in H.
    destruct (strata_get (c_strata c) k) as [v'|] eqn:E; [|discriminate].
    apply String.eqb_eq in H. subst. apply (strata_get_in _ _ _ Hnd). exact E.
  - specialize (H kv Hin). destruct kv as [k v]. cbn [fst snd].
    apply (strata_get_in _ _ _ Hnd) in H. rewrite H. apply String.eqb_refl.
Qed.

Lemma query_match_has_strata c filt :
  NoDup (map fst (c_strata c)) -> query_match c filt = has_strata c filt.
Proof.
  intro Hnd. apply eq_true_iff_eq. rewrite (query_match_spec c filt Hnd), has_strata_spec. reflexivity.
Qed.

Lemma has_stratum_spec c k v :
  NoDup (map fst (c_strata c)) -> (has_stratum c k v = true <-> In (k, v) (c_strata c)).
Proof.
  intro Hnd. unfold has_stratum. destruct (strata_get (c_strata c) k) as [v'|] eqn:E.
  - rewrite String.eqb_eq. rewrite <- (strata_get_in _ _ _ Hnd). split; [intros ->; exact E | intro E'; congruence].
  - split; [discriminate|]. intro H. apply (strata_get_in _ _ _ Hnd) in H. congruence.
Qed.

(* flows: ends tested independently, a missing end never excludes *)
Lemma opt_has_strata_spec oc filt : opt_has_strata oc filt = true <-> end_ok oc filt.
Proof.
  unfold opt_has_strata, end_ok. destruct filt as [|kv filt].
  - split; [|reflexivity]. intros _. destruct oc; [intros ? []|exact I].
  - destruct oc as [c|]; [apply has_strata_spec | split; reflexivity].
Qed.

Lemma flow_is_match_spec f name sf df : flow_is_match f name sf df = true <-> selects_flow name sf df f.
Proof.
  unfold flow_is_match, selects_flow. rewrite !andb_true_iff, String.eqb_eq, !opt_has_strata_spec.
  split; [intros [[H1 H2] H3] | intros [H1 [H2 H3]]]; auto.
Qed.

(* derived-output selectors *)
Lemma do_flow_match_spec f name sf df : do_flow_match f name sf df = true <-> selects_flow name sf df f.
Proof.
  unfold do_flow_match, selects_flow, end_ok. rewrite !andb_true_iff, String.eqb_eq.
  destruct (f_src f), (f_dst f); rewrite ?has_strata_spec; split; intros H; repeat split; try apply H; auto.
Qed.

Lemma do_comp_match_spec c names filt :
  do_comp_match c names filt = true <-> (In (c_name c) names /\ strata_contain (c_strata c) filt).
Proof.
  unfold do_comp_match, has_name_in_list, mem_str. rewrite andb_true_iff, existsb_exists, is_match_spec.
  unfold selects_comp. split.
  - intros [[n [Hn E]] [_ H]]. apply String.eqb_eq in E. subst. auto.
  - intros [Hn H]. split; [exists (c_name c); split; [exact Hn|apply String.eqb_refl] | auto].
Qed.

(* the query functions are filters by the predicate, in model order *)
Definition wf_comps (cs : list comp) : Prop := forall c, In c cs -> NoDup (map fst (c_strata c)).

Lemma filter_ext_in' {A} (f g : A -> bool) l : (forall a, In a l -> f a = g a) -> filter f l = filter g l.
Proof.
  induction l as [|a l IH]; intro H; cbn; [reflexivity|].
  rewrite (H a (or_introl eq_refl)), IH; [reflexivity|]. intros b Hb. apply H. right; exact Hb.
Qed.

Theorem matching_comps_spec m name filt cs :
  wf_comps (m_comps m) -> matching_comps m name filt = Ok cs ->
  cs = filter (fun c => is_match c name filt) (m_comps m).
Proof.
  intros Hwf. unfold matching_comps. destruct (existsb _ (m_comps m)); [|discriminate].
  intro E. injection E as <-. apply filter_ext_in'. intros c Hc. unfold is_match.
  rewrite (query_match_has_strata c filt (Hwf c Hc)). reflexivity.
Qed.

Lemma filter_filter_andb {A} (f g : A -> bool) l :
  filter f (filter g l) = filter (fun x => g x && f x) l.
Proof.
  induction l as [|a l IH]; cbn [filter]; [reflexivity|].
  destruct (g a); cbn [filter andb]; [destruct (f a)|]; rewrite IH; reflexivity.
Qed.

Theorem query_compartments_spec m name filt cs :
  wf_comps (m_comps m) -> query_compartments m (Some name) filt false = Ok cs ->
  cs = filter (fun c => is_match c name filt) (m_comps m).
Proof.
  intros Hwf. unfold query_compartments, bind. destruct (existsb _ (m_comps m)); [|discriminate].
  intro E. injection E as <-. rewrite filter_filter_andb. apply filter_ext_in'. intros c Hc.
  unfold is_match. rewrite (query_match_has_strata c filt (Hwf c Hc)). cbn [negb orb].
  rewrite andb_true_r. reflexivity.
Qed.

Theorem query_flows_spec m name sf df :
  query_flows m (Some name) sf df = filter (fun f => flow_is_match f name sf df) (m_flows m).
Proof.
  unfold query_flows. apply filter_ext_in'. intros f _. unfold flow_is_match.
  rewrite (String.eqb_sym name (f_name f)). reflexivity.
Qed.

(* ---------------------------------------------------------------- flow adjustments restricted by source / destination strata *)
(* an adjustment request (adjustments, source filter, destination filter) declared for the flow's name applies to the flow
   iff its source filter holds at the flow's source and its destination filter at the flow's destination - each end on
   its own, a missing end never excluding the flow *)
Definition request_selects (f : flow) (e : fadj_entry) : Prop :=
  selects_flow (f_name f) (snd (fst e)) (snd e) f.

Lemma fadj_applies_spec f e : fadj_applies f e = true <-> request_selects f e.
Proof.
  unfold fadj_applies, request_selects, selects_flow. destruct e as [[a sf] df]. cbn [fst snd].
  rewrite andb_true_iff, !opt_has_strata_spec. split; [intros [H1 H2]; repeat split; assumption | intros [_ [H1 H2]]; split; assumption].
Qed.

Lemma last_some_map_spec {A B} (p : A -> bool) (g : A -> B) (l : list A) :
  match last_some (map (fun e => if p e then Some (g e) else None) l) with
  | Some b => exists pre e post, l = pre ++ e :: post /\ p e = true /\ g e = b /\ forallb (fun x => negb (p x)) post = true
  | None => forallb (fun x => negb (p x)) l = true
  end.
Proof.
  induction l as [|h t IH]; [reflexivity|]. cbn [map last_some].
  destruct (last_some (map (fun e => if p e then Some (g e) else None) t)) as [b|] eqn:E.
  - destruct IH as (pre & e & post & -> & Hp & Hg & Hn). exists (h :: pre), e, post. repeat split; assumption.
  - destruct (p h) eqn:Eh.
    + exists [], h, t. repeat split; [exact Eh | exact IH].
    + cbn [forallb]. rewrite Eh. exact IH.
Qed.

(* Stratification.get_flow_adjustment: of the requests declared for the flow's name, in declaration order, the LAST one
   that selects the flow decides; requests that do not select it - earlier or later, whatever filters they share with
   the one that does - play no part; none selecting it means no adjustment *)
Theorem adjustment_selection s f r :
  get_flow_adjustment s f = Ok r ->
  match r with
  | Some a => exists pre e post, declared_for s (f_name f) = pre ++ e :: post /\ request_selects f e /\ fst (fst e) = a
                                 /\ Forall (fun x => ~ request_selects f x) post
  | None => Forall (fun x => ~ request_selects f x) (declared_for s (f_name f))
  end.
Proof.
  unfold get_flow_adjustment. destruct (existsb _ _); [discriminate|]. intro H. injection H as <-.
  pose proof (last_some_map_spec (fadj_applies f) (fun e : fadj_entry => fst (fst e)) (declared_for s (f_name f))) as L.
  assert (N : forall l, forallb (fun x => negb (fadj_applies f x)) l = true -> Forall (fun x => ~ request_selects f x) l).
  { intros l Hl. apply Forall_forall. intros x Hx. rewrite forallb_forall in Hl. specialize (Hl x Hx).
    rewrite <- fadj_applies_spec. destruct (fadj_applies f x); [discriminate | intro K; discriminate]. }
  destruct (last_some _) as [a|].
  - destruct L as (pre & e & post & E & Hp & Hg & Hn). exists pre, e, post.
    split; [exact E|]. split; [apply fadj_applies_spec; exact Hp|]. split; [exact Hg|]. apply N. exact Hn.
  - apply N. exact L.
Qed.
