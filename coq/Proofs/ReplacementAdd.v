(* C02: a replacement-birth flow, however many compartments its destination matches when it is added, enters the
   model with weights that add up to one (so births replace deaths exactly, C02_replacement). *)
From Coq Require Import QArith Field Ring List String Bool Arith Lia.
Import ListNotations.
From S2 Require Import Base.Num Base.Arr Model.Expr Model.Struct Spec.RatesSpec
     Proofs.ArrLemmas Proofs.NumLemmas Proofs.BuildProofs Proofs.AggregateProofs.
Local Open Scope nat_scope.
Local Notation length := List.length.

Section ReplacementAdd.
Variable O : NumOps.
Variable T : NumTheory O.
Notation F := (F O).
Add Field Fra : (Fth O T).

Theorem replacement_added_weights m name param src dst sf df expected split m' (p : env O) t x :
  add_flow m (FlowSpec KRepl name param src dst sf df expected split) = Ok m' ->
  exists new,
    m_flows m' = m_flows m ++ new
    /\ length new = length (filter (fun c => is_match c dst df) (m_comps m))
    /\ (forall f, In f new -> f_kind f = KRepl)
    /\ (new <> [] -> fsum O (map (weight_spec O p t x) new) = f1 O).
Proof.
  unfold add_flow, bind. intro H. inv_guard H.
  unfold add_entry_flow, not_finalized, bind in H. inv_guard H.
  set (dests := filter (fun c => is_match c dst df) (m_comps m)) in *.
  destruct (check_count expected _) in H; [|discriminate]. cbn [bind] in H. injection H as <-. cbn [upd_flows m_flows].
  eexists. split; [reflexivity|]. split; [apply map_length|]. split.
  - intros f Hf. apply in_map_iff in Hf. destruct Hf as [c [<- _]]. reflexivity.
  - intro Hne. rewrite map_map. unfold weight_spec. cbn [f_param f_adjs].
    destruct (Nat.ltb_spec 1 (length dests)) as [Hn|Hn].
    + cbn [fold_left apply_adj]. unfold inv_count. cbn [eval].
      rewrite (fsum_map_ext O _ (fun _ => fmul O (fmul O (of_Q O 1) (of_Q O (1 # Pos.of_nat (length dests)))) (f1 O)))
        by (intros; ring).
      assert (Er : forall (v : F) (l : list comp), map (fun _ => v) l = repeat v (length l))
        by (intros v l; induction l as [|c l IH]; cbn; [reflexivity | rewrite IH; reflexivity]).
      rewrite Er, (divided_copies_sum O T (of_Q O 1) (f1 O) (length dests)) by lia.
      rewrite (of_Q_1 O T). ring.
    + cbn [fold_left]. cbn [eval].
      destruct dests as [|c [|c' l]]; cbn in Hn, Hne |- *; [congruence | rewrite (of_Q_1 O T); ring | lia].
Qed.

End ReplacementAdd.
