(* C03 for models WITH infection flows, at the level of the documented laws (C01, C05): under a non-strain stratification
   without flow adjustments, mixing matrix and infectiousness adjustments, the net rates of the stratified model at any
   state, summed over the copies of a compartment, are the compartment's net rate in the unstratified model at the
   aggregated state - infection flows included, their rate being weight x source x force of infection (C05's foi_spec
   at the category of the source and the strain of the destination). *)
From Coq Require Import QArith Field Ring List String Bool Arith Lia Permutation.
Import ListNotations.
From S2 Require Import Base.Num Base.Arr Model.Expr Model.Struct Model.Rates Model.Program Spec.RatesSpec
     Proofs.ArrLemmas Proofs.NumLemmas Proofs.BuildProofs Proofs.RatesProofs Proofs.ConservationProofs Proofs.CopiesProofs
     Proofs.FoiProofs Proofs.InfectiousnessProofs Proofs.AggregateProofs
     Proofs.InvarianceProofs Proofs.TimeShift Proofs.Scaling Proofs.Assembly Proofs.SameKeys Proofs.AgeAssembly
     Proofs.AggregateRates Proofs.AggregateModel Proofs.AggregateTotals Proofs.AggregateAll Proofs.AggregateTraj
     Proofs.AggregateRatesInf Proofs.FoiAggregate Proofs.FoiBridge Proofs.FoiModel Proofs.RunExt Proofs.AgeZero.
Local Open Scope nat_scope.
Local Notation length := List.length.

Section Inf.
Variable O : NumOps.
Variable T : NumTheory O.
Notation F := (F O).
Add Field Finf : (Fth O T).

(* the force of infection that multiplies an infection flow: C05's definition at the mixing category of the flow's source
   and the strain of its destination *)
Definition mult_of (M : model) (p : env O) (t : F) (x : list F) (f : flow) : F :=
  foi_spec O (fkind_eqb (f_kind f) KInfFreq) (mixing_matrix O M p t x) x (compartment_infectiousness O M p)
           (map (cat_members M) (m_mixcats M)) (strain_infectious_comps M (strain_of_dest M f))
           (match f_src f with Some c => category_of M c | None => 0 end).

(* the documented law of every flow *)
Definition all_rate (p : env O) (t : F) (M : model) (x : list F) (f : flow) : F :=
  match f_kind f with
  | KInfFreq | KInfDens => fmul O (frac_rate O p t (m_comps M) x f) (mult_of M p t x f)
  | _ => ni_rate O p t M x f
  end.

Definition all_flow (f : flow) : Prop :=
  ((f_kind f = KTrans \/ f_kind f = KDeath \/ is_infection (f_kind f) = true) -> exists c, f_src f = Some c)
  /\ forallb state_free (flow_exprs f) = true.


Variables (t0 t1 h : Q) (comps inf : list string) (ops : list op) (m : model) (s0 : strat) (m' : model).
Hypothesis Hb : build_ok t0 t1 h comps inf ops = Some m.
Hypothesis Hcs_nd : NoDup (m_comps m).
Hypothesis H : stratify_with m s0 = Ok m'.
Let s := normalise_strat s0.
Hypothesis Hst : NoDup (s_strata s).
Hypothesis Hne : s_strata s <> [].
Hypothesis Hns : is_strain (s_kind s) = false.
Hypothesis Hna : s_fadj s = [].
Hypothesis Hmix : s_mix s = None.
Hypothesis Hia : s_iadj s = [].
Hypothesis Hfl : forall f, In f (m_flows m) -> all_flow f.
Hypothesis Hmx : forallb state_free (mix_exprs m) = true.
Variables (p : env O) (t : F) (x' : list F).
Hypothesis Hlen : length x' = length (m_comps m').

Let cs := m_comps m.
Let xa := aggx O s cs x'.
Let W : wf m := wf_build _ _ _ _ _ _ _ Hb.

Lemma age0' : is_age (s_kind s) = true -> length (filter (fun st => String.eqb st "0") (s_strata s)) = 1.
Proof. intro Hage. exact (AgeZero.age_zero_once m s0 m' H Hst Hage). Qed.

Lemma ni_of_all f : In f (m_flows m) -> is_infection (f_kind f) = false -> ni_flow f.
Proof.
  intros Hf Hk. destruct (Hfl f Hf) as [Hsrc Hsf]. repeat split; [exact Hk | | exact Hsf].
  intros [K|K]; apply Hsrc; [left | right; left]; exact K.
Qed.

(* the copies of a compartment belong to its mixing category *)
Lemma category_copy c c' : In c cs -> In c' (group s c) -> category_of m' c' = category_of m c.
Proof.
  intros Hc Hc'. destruct (strains_kept m s0 m' H Hns Hmix) as [_ Emc]. unfold category_of. rewrite Emc.
  apply fold_left_ext_in. intros acc ic Hic.
  rewrite (group_forallb_has_stratum s c c' (snd ic) Hc'); [reflexivity|].
  intros kv Hkv E. destruct (stratify_with_inv _ _ _ H) as (_ & _ & Hfresh & _). cbn zeta in Hfresh. fold s in Hfresh.
  apply (mem_str_false_notin _ _ Hfresh). rewrite <- E.
  apply in_enumerate_from in Hic. destruct Hic as [_ Hn]. apply nth_error_In in Hn.
  exact (mixcats_known_build _ _ _ _ _ _ _ Hb (snd ic) kv Hn Hkv).
Qed.

(* the destination of a copy carries the strain of the destination of the flow *)
Lemma strain_copy f g fl : In f (m_flows m) -> stratify_flow s f = Ok fl -> In g fl -> strain_of_dest m' g = strain_of_dest m f.
Proof.
  intros Hf E Hg. destruct (copies_ends_in_groups s f fl g (proj2 (wf_flows m W f Hf)) E Hg) as [Hd _].
  unfold strain_of_dest.
  assert (En : strain_strat_name m' = strain_strat_name m).
  { destruct (stratify_with_inv _ _ _ H) as (_ & Es & _). cbn zeta in Es. unfold strain_strat_name. rewrite Es, filter_app. cbn [filter].
    fold s. rewrite Hns, app_nil_r. reflexivity. }
  rewrite En. destruct (f_dst f) as [d|], (f_dst g) as [d'|]; cbn [end_in] in Hd; try contradiction; [|reflexivity].
  destruct (strain_strat_name m) as [n|] eqn:Esn; [|reflexivity].
  rewrite (group_strata_get s d d' n Hd); [reflexivity|].
  intro E'. destruct (stratify_with_inv _ _ _ H) as (_ & _ & Hfresh & _). cbn zeta in Hfresh. fold s in Hfresh.
  apply (mem_str_false_notin _ _ Hfresh). rewrite <- E'.
  unfold strain_strat_name in Esn. destruct (filter (fun s1 => is_strain (s_kind s1)) (m_strats m)) as [|s1 rest] eqn:Ef; [discriminate|].
  injection Esn as <-. unfold strat_names. apply in_map.
  assert (Hin : In s1 (filter (fun s1 => is_strain (s_kind s1)) (m_strats m))) by (rewrite Ef; left; reflexivity).
  apply filter_In in Hin. apply Hin.
Qed.

Lemma comps'' : m_comps m' = stratify_comps s cs.
Proof. destruct (stratify_with_inv _ _ _ H) as [Ec _]. exact Ec. Qed.

(* every copy of an infection flow is multiplied by the force of infection of the flow at the aggregated state *)
Lemma mult_copy f g fl : In f (m_flows m) -> stratify_flow s f = Ok fl -> In g fl ->
  mult_of m' p t x' g = mult_of m p t xa f.
Proof.
  intros Hf E Hg. unfold mult_of.
  rewrite (copies_kind s f fl g E Hg), (strain_copy f g fl Hf E Hg).
  rewrite (mixing_matrix_kept O m s0 m' H Hmix p t x'), (mixing_matrix_state_free O m p t x' xa Hmx).
  destruct (copies_ends_in_groups s f fl g (proj2 (wf_flows m W f Hf)) E Hg) as [_ Hsrc].
  assert (Ecat : match f_src g with Some c => category_of m' c | None => 0 end
                 = match f_src f with Some c => category_of m c | None => 0 end).
  { destruct (f_src f) as [c|] eqn:Es, (f_src g) as [c'|]; cbn [end_in] in Hsrc; try contradiction; [|reflexivity].
    apply category_copy; [|exact Hsrc]. apply (proj1 (wf_flows m W f Hf)). left. exact Es. }
  rewrite Ecat.
  rewrite (force_of_infection_aggregates_built O T t0 t1 h comps inf ops m s0 m' Hb Hcs_nd H Hst Hns Hmix Hia p x').
  rewrite (agg_is_aggx O m s0 m' x' comps''). reflexivity.
Qed.


Lemma all_ok' f : In f (m_flows m) -> exists l, stratify_flow s f = Ok l.
Proof.
  intro Hf. destruct (stratify_with_flows _ _ _ H) as (fl0 & extra & Ecol & _ & _).
  apply (collect_all_ok _ _ _ Ecol f Hf).
Qed.

(* total death rate (the death flows are not infection flows) *)
Lemma deaths_aggregate' : cs <> [] -> total_deaths O m' p t x' = total_deaths O m p t xa.
Proof.
  intro Hcs.
  unfold total_deaths.
  destruct (flows_shape t0 t1 h comps inf ops m s0 m' Hb H age0') as [extra [-> Hex]]. fold s.
  rewrite filter_app.
  replace (filter (fun f => fkind_eqb (f_kind f) KDeath) extra) with (@nil flow).
  2: { symmetry. induction extra as [|g l IH]; cbn; [reflexivity|]. rewrite (Hex g (or_introl eq_refl)). cbn.
       apply IH. intros g' Hg'. apply Hex. right; exact Hg'. }
  rewrite app_nil_r.
  rewrite (filter_copies_kind (fun k => fkind_eqb k KDeath) s (m_flows m) all_ok').
  rewrite (fsum_flat_map O T). apply (fsum_map_ext O). intros f Hf. apply filter_In in Hf. destruct Hf as [Hf Hk].
  destruct (all_ok' f Hf) as [l El]. unfold copies_of. rewrite El.
  assert (Kd : f_kind f = KDeath) by (destruct (f_kind f); cbn in Hk; try discriminate; reflexivity).
  destruct (ni_of_all f Hf ltac:(rewrite Kd; reflexivity)) as (_ & Hsrc & Hsf).
  destruct (Hsrc (or_intror Kd)) as [c0 Ec0].
  assert (Hn0 : length (s_strata s) <> 0) by (intro E; apply Hne; destruct (s_strata s); [reflexivity|discriminate]).
  rewrite (fsum_map_ext O _ (frac_rate O p t (stratify_comps s cs) x')) by (intros g _; unfold base_rate, frac_rate; rewrite comps''; reflexivity).
  apply (frac_copies_rate_sum O T p t s cs x' Hcs f (or_intror Kd)); try assumption.
  - exists c0. split; [exact Ec0 | apply (proj1 (wf_flows m W f Hf)); left; exact Ec0].
  - apply no_adjustments. exact Hna.
Qed.

(* flow by flow: the laws of the copies add up to the law of the flow at the aggregated state *)
Lemma all_copies_rate_sum f : In f (m_flows m) -> cs <> [] ->
  fsum O (map (all_rate p t m' x') (copies_of s f)) = all_rate p t m xa f.
Proof.
  intros Hf Hcs.
  assert (Hn0 : length (s_strata s) <> 0) by (intro E; apply Hne; destruct (s_strata s); [reflexivity|discriminate]).
  assert (Hnd' : NoDup (stratify_comps s cs)) by (rewrite <- comps''; apply (stratify_with_nodup m s0 m' W Hcs_nd Hst H)).
  assert (Hlen' : length x' = length (stratify_comps s cs)) by (rewrite <- comps''; exact Hlen).
  destruct (Hfl f Hf) as [Hsrc_all Hsf].
  destruct (all_ok' f Hf) as [fl Efl]. unfold copies_of. rewrite Efl.
  destruct (is_infection (f_kind f)) eqn:Hinf.
  - (* infection flows *)
    assert (Hk : f_kind f = KInfFreq \/ f_kind f = KInfDens) by (destruct (f_kind f); cbn in Hinf; try discriminate; auto).
    destruct (Hsrc_all (or_intror (or_intror eq_refl))) as [c0 Ec0].
    rewrite (fsum_map_ext O _ (fun g => fmul O (mult_of m p t xa f) (frac_rate O p t (stratify_comps s cs) x' g))).
    2: { intros g Hg. unfold all_rate. rewrite (copies_kind s f fl g Efl Hg), (mult_copy f g fl Hf Efl Hg), comps''.
         destruct Hk as [-> | ->]; ring. }
    rewrite (fsum_map_scale O T (mult_of m p t xa f) (frac_rate O p t (stratify_comps s cs) x')).
    rewrite (inf_copies_rate_sum O T p t s cs x' Hcs f Hk
               (ex_intro _ c0 (conj Ec0 (proj1 (wf_flows m W f Hf) c0 (or_introl Ec0)))) Hsf Hns (no_adjustments s f Hna) Hn0 fl Efl).
    unfold all_rate. fold cs. fold xa. destruct Hk as [-> | ->]; ring.
  - (* the other flows: as in AggregateAll *)
    destruct (ni_of_all f Hf Hinf) as (Hni & Hsrc & _).
    rewrite (fsum_map_ext O _ (fun g => match f_kind f with
                                         | KTrans | KDeath => frac_rate O p t (stratify_comps s cs) x' g
                                         | KCrude => fmul O (weight_spec O p t x' g) (fsum O x')
                                         | KRepl => fmul O (weight_spec O p t x' g) (total_deaths O m' p t x')
                                         | KImport | KAbs => weight_spec O p t x' g
                                         | _ => f0 O end)).
    2: { intros g Hg. unfold all_rate, ni_rate. rewrite (copies_kind s f fl g Efl Hg), comps''.
         destruct (f_kind f); cbn in Hinf; try discriminate; reflexivity. }
    unfold all_rate, ni_rate. fold cs.
    destruct (f_kind f) eqn:Ek; cbn in Hinf; try discriminate.
    + rewrite (fsum_map_ext O _ (fun g => fmul O (fsum O x') (weight_spec O p t x' g))) by (intros; ring).
      rewrite (fsum_map_scale O T (fsum O x') (weight_spec O p t x')).
      rewrite (birth_copies_weight_sum O T p t s x' xa f (or_introl Ek) Hsf (no_adjustments s f Hna) Hn0 age0' fl Efl).
      unfold xa. rewrite (total_aggregates O T s cs x' Hnd' Hlen'). ring.
    + rewrite (fsum_map_ext O _ (fun g => fmul O (total_deaths O m' p t x') (weight_spec O p t x' g))) by (intros; ring).
      rewrite (fsum_map_scale O T (total_deaths O m' p t x') (weight_spec O p t x')).
      rewrite (birth_copies_weight_sum O T p t s x' xa f (or_intror Ek) Hsf (no_adjustments s f Hna) Hn0 age0' fl Efl).
      rewrite (deaths_aggregate' Hcs). ring.
    + apply (abs_copies_rate_sum O T p t s x' xa f (or_introl Ek) Hsf (no_adjustments s f Hna) Hn0 fl Efl).
    + destruct (Hsrc (or_intror eq_refl)) as [c0 Ec0].
      apply (frac_copies_rate_sum O T p t s cs x' Hcs f (or_intror Ek)); try assumption.
      * exists c0. split; [exact Ec0 | apply (proj1 (wf_flows m W f Hf)); left; exact Ec0].
      * apply no_adjustments. exact Hna.
    + destruct (Hsrc (or_introl eq_refl)) as [c0 Ec0].
      apply (frac_copies_rate_sum O T p t s cs x' Hcs f (or_introl Ek)); try assumption.
      * exists c0. split; [exact Ec0 | apply (proj1 (wf_flows m W f Hf)); left; exact Ec0].
      * apply no_adjustments. exact Hna.
    + apply (abs_copies_rate_sum O T p t s x' xa f (or_intror Ek) Hsf (no_adjustments s f Hna) Hn0 fl Efl).
Qed.

(* the whole model, infection flows included *)
Theorem all_flows_model_aggregates c : In c cs ->
  fsum O (map (fun c' => net_rate O (all_rate p t m' x') (m_flows m') c') (group s c))
  = net_rate O (all_rate p t m xa) (m_flows m) c.
Proof.
  intro Hc.
  assert (Hcs : cs <> []) by (intro E; unfold cs in *; rewrite E in Hc; destruct Hc).
  apply (stratified_net_rates_built O T t0 t1 h comps inf ops m s0 m' _ _ Hb Hst H); [|exact Hc].
  intros f Hf. fold s. apply all_copies_rate_sum; assumption.
Qed.

End Inf.
