(* C09 / C10 on the model: named parameters are interchangeable with literals (substitution),
   freezing any subset of the parameters at build time gives the same values as supplying them
   at run time, results depend only on the parameters that occur, and every weight is evaluated
   at the time and state of the evaluation. *)
From Coq Require Import QArith List String Bool Arith Lia.
Import ListNotations.
From S2 Require Import Base.Num Base.Arr Model.Expr Model.Struct Model.Rates Spec.RatesSpec
     Proofs.ArrLemmas Proofs.ExprLemmas Proofs.WeightProofs.
Local Open Scope nat_scope.
Local Notation length := List.length.

(* freeze: every parameter that is not dynamic is replaced by its build-time value
   (ComputeGraph.freeze with input_variables = base parameters) *)
Fixpoint freeze_expr (dyn : list string) (base : string -> option Q) (e : expr) : expr :=
  match e with
  | EParam k => if mem_str k dyn then e else match base k with Some q => EConst q | None => e end
  | EConst _ | ETime | EComp _ => e
  | EAdd a b => EAdd (freeze_expr dyn base a) (freeze_expr dyn base b)
  | ESub a b => ESub (freeze_expr dyn base a) (freeze_expr dyn base b)
  | EMul a b => EMul (freeze_expr dyn base a) (freeze_expr dyn base b)
  | EDiv a b => EDiv (freeze_expr dyn base a) (freeze_expr dyn base b)
  | EPiecewise x bps vals => EPiecewise (freeze_expr dyn base x) (map (freeze_expr dyn base) bps) (map (freeze_expr dyn base) vals)
  | ELinear x xs ys => ELinear (freeze_expr dyn base x) (map (freeze_expr dyn base) xs) (map (freeze_expr dyn base) ys)
  end.

Definition subst_adj (k : string) (v : Q) (a : adj) : adj :=
  match a with AMul e => AMul (subst k v e) | AOvr e => AOvr (subst k v e) end.
Definition subst_flow (k : string) (v : Q) (f : flow) : flow :=
  {| f_name := f_name f; f_kind := f_kind f; f_src := f_src f; f_dst := f_dst f;
     f_param := subst k v (f_param f); f_adjs := map (subst_adj k v) (f_adjs f) |}.

Definition flow_params (f : flow) : list string :=
  params_of (f_param f) ++ flat_map (fun a => params_of (adj_expr a)) (f_adjs f).

Section Params.
Variable O : NumOps.
Notation F := (F O).
Notation env := (env O).

Definition staged_env (dyn : list string) (base : string -> option Q) (rt : env) : env :=
  fun k => if mem_str k dyn then rt k else match base k with Some q => of_Q O q | None => rt k end.

(* C09 staging: evaluating the frozen expression with the run-time parameters = evaluating the
   original expression with frozen values from the build and dynamic values from the run,
   for every partition of the parameters *)
Theorem freeze_correct dyn base (rt : env) t x e :
  eval O rt t x (freeze_expr dyn base e) = eval O (staged_env dyn base rt) t x e.
Proof.
  induction e using expr_ind2; cbn [freeze_expr eval]; try reflexivity.
  - unfold staged_env. destruct (mem_str k dyn); [reflexivity|]. destruct (base k); reflexivity.
  - rewrite IHe1, IHe2; reflexivity.
  - rewrite IHe1, IHe2; reflexivity.
  - rewrite IHe1, IHe2; reflexivity.
  - rewrite IHe1, IHe2; reflexivity.
  - rewrite IHe, !map_map.
    rewrite (map_ext_Forall _ (eval O (staged_env dyn base rt) t x) _ bps H (fun a Ha => Ha)).
    rewrite (map_ext_Forall _ (eval O (staged_env dyn base rt) t x) _ vals H0 (fun a Ha => Ha)). reflexivity.
  - rewrite IHe, !map_map.
    rewrite (map_ext_Forall _ (eval O (staged_env dyn base rt) t x) _ xs H (fun a Ha => Ha)).
    rewrite (map_ext_Forall _ (eval O (staged_env dyn base rt) t x) _ ys H0 (fun a Ha => Ha)). reflexivity.
Qed.

(* hence the result does not depend on which parameters were fixed at build time, as long as
   the run-time values agree with the build-time values of the fixed ones *)
Corollary partition_irrelevant dyn base (rt : env) t x e :
  (forall k q, mem_str k dyn = false -> base k = Some q -> rt k = of_Q O q) ->
  eval O rt t x (freeze_expr dyn base e) = eval O rt t x e.
Proof.
  intro H. rewrite freeze_correct. apply eval_env_ext. intros k _. unfold staged_env.
  destruct (mem_str k dyn) eqn:E; [reflexivity|]. destruct (base k) as [q|] eqn:Eb; [|reflexivity].
  symmetry. apply (H k q E Eb).
Qed.

(* C09 substitution at flow level: building with the literal v = building with the parameter and
   running with value v *)
Theorem weight_subst (p : env) k v t x f :
  p k = of_Q O v -> weight_spec O p t x (subst_flow k v f) = weight_spec O p t x f.
Proof.
  intro Hk. unfold weight_spec, subst_flow. cbn [f_param f_adjs].
  rewrite (eval_subst O p k v (f_param f) t x Hk).
  generalize (eval O p t x (f_param f)) as w0.
  induction (f_adjs f) as [|a l IH]; intro w0; cbn [map fold_left]; [reflexivity|].
  rewrite IH. f_equal. destruct a; cbn [subst_adj apply_adj]; rewrite (eval_subst O p k v _ t x Hk); reflexivity.
Qed.

(* the weight of a flow depends only on the parameters that occur in its parameter / adjustments *)
Theorem weight_env_ext (p q : env) t x f :
  (forall k, In k (flow_params f) -> p k = q k) -> weight_spec O p t x f = weight_spec O q t x f.
Proof.
  intro H. unfold weight_spec, flow_params in *.
  rewrite (eval_env_ext O p q (f_param f) t x) by (intros k Hk; apply H, in_or_app; left; exact Hk).
  assert (H' : forall k, In k (flat_map (fun a => params_of (adj_expr a)) (f_adjs f)) -> p k = q k)
    by (intros k Hk; apply H, in_or_app; right; exact Hk).
  clear H. generalize (eval O q t x (f_param f)) as w0.
  induction (f_adjs f) as [|a l IH]; intro w0; cbn [fold_left]; [reflexivity|].
  rewrite IH by (intros k Hk; apply H'; cbn; apply in_or_app; right; exact Hk). f_equal.
  assert (Ha : eval O p t x (adj_expr a) = eval O q t x (adj_expr a)).
  { apply eval_env_ext. intros k Hk. apply H'. cbn. apply in_or_app. left; exact Hk. }
  destruct a; cbn [apply_adj adj_expr] in *; rewrite Ha; reflexivity.
Qed.

(* defaults fill in omitted values, supplied values win *)
Definition with_defaults (defaults supplied : list (string * Q)) : list (string * Q) := supplied ++ defaults.

Lemma assoc_app {A} k (l1 l2 : list (string * A)) :
  assoc k (l1 ++ l2) = match assoc k l1 with Some a => Some a | None => assoc k l2 end.
Proof. induction l1 as [|[k' v] l1 IH]; cbn; [reflexivity|]. destruct (String.eqb k k'); [reflexivity|exact IH]. Qed.

Theorem defaults_fill defaults supplied k :
  assoc k (with_defaults defaults supplied)
  = match assoc k supplied with Some v => Some v | None => assoc k defaults end.
Proof. apply assoc_app. Qed.

End Params.
