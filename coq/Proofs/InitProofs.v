(* C06 on the specification level: pushing a distribution through a stratification's split keeps
   every original compartment's total when the split sums to one; products of splits.
   (The index-array scatter of runner/jax/stratify.py is tied to this specification by the
   correspondence check only: C06 is claimed at partial strength, see Props/C06.v.) *)
From Coq Require Import QArith Field Ring List String Bool Arith Lia.
Import ListNotations.
From S2 Require Import Base.Num Base.Arr Model.Expr Model.Struct Model.InitPop
     Proofs.ArrLemmas Proofs.NumLemmas.
Local Open Scope nat_scope.
Local Notation length := List.length.

Section Init.
Variable O : NumOps.
Variable T : NumTheory O.
Notation F := (F O).
Add Field Fin : (Fth O T).
Variable p : env O.

Definition split_of (s : strat) (st : string) : F :=
  match assoc st (s_split s) with
  | Some e => static_eval O p e
  | None => of_Q O (1 # Pos.of_nat (length (s_strata s)))
  end.

(* specification of one stratification step on (compartment, value) pairs: a stratified compartment
   is replaced in place by its strata, each holding value x split; the others keep their value *)
Definition sv_spec (s : strat) (cvs : list (comp * F)) : list (comp * F) :=
  flat_map (fun cv => if has_name_in_list (fst cv) (s_comps s)
                      then map (fun st => (stratify_comp (fst cv) (s_name s) st, fmul O (snd cv) (split_of s st))) (s_strata s)
                      else [cv]) cvs.

Definition total_named (n : string) (cvs : list (comp * F)) : F :=
  fsum O (map (fun cv => if String.eqb n (c_name (fst cv)) then snd cv else f0 O) cvs).

Definition splits_sum_to_one (s : strat) : Prop := fsum O (map (split_of s) (s_strata s)) = f1 O.

Lemma total_named_app n l1 l2 : total_named n (l1 ++ l2) = fadd O (total_named n l1) (total_named n l2).
Proof. unfold total_named. rewrite map_app. apply (fsum_app O T). Qed.

(* splits that sum to one preserve the total of every original compartment name *)
Theorem sv_spec_total s n cvs : splits_sum_to_one s -> total_named n (sv_spec s cvs) = total_named n cvs.
Proof.
  intro Hs. induction cvs as [|[c v] cvs IH]; [reflexivity|].
  unfold sv_spec in *. cbn [flat_map]. rewrite total_named_app, IH.
  change ((c, v) :: cvs) with ([(c, v)] ++ cvs). rewrite total_named_app. f_equal.
  cbn [fst snd]. destruct (has_name_in_list c (s_comps s)); [|reflexivity].
  unfold total_named. rewrite map_map. cbn [fst snd stratify_comp c_name map].
  destruct (String.eqb n (c_name c)).
  - rewrite (fsum_cons O), (fsum_nil O).
    transitivity (fmul O v (fsum O (map (split_of s) (s_strata s)))); [|rewrite Hs; ring].
    rewrite <- (fsum_map_scale O T v (split_of s)). reflexivity.
  - rewrite (fsum_map_zero O T). cbn. ring.
Qed.

(* ... and the total population *)
Theorem sv_spec_grand_total s cvs : splits_sum_to_one s ->
  fsum O (map snd (sv_spec s cvs)) = fsum O (map snd cvs).
Proof.
  intro Hs. induction cvs as [|[c v] cvs IH]; [reflexivity|].
  unfold sv_spec in *. cbn [flat_map]. rewrite map_app, (fsum_app O T), IH. cbn [map snd]. rewrite (fsum_cons O). f_equal.
  cbn [fst snd]. destruct (has_name_in_list c (s_comps s)); [|cbn; ring].
  rewrite map_map. cbn [snd].
  transitivity (fmul O v (fsum O (map (split_of s) (s_strata s)))); [|rewrite Hs; ring].
  rewrite <- (fsum_map_scale O T v (split_of s)). reflexivity.
Qed.

(* the compartments of the specification are the model's compartments: same in-place order *)
Theorem sv_spec_comps s cvs : map fst (sv_spec s cvs) = stratify_comps s (map fst cvs).
Proof.
  induction cvs as [|[c v] cvs IH]; [reflexivity|]. unfold sv_spec, stratify_comps in *. cbn [flat_map map fst].
  rewrite map_app, IH. f_equal. destruct (has_name_in_list c (s_comps s)); [|reflexivity].
  rewrite map_map. reflexivity.
Qed.

(* value = parent's value x this stratification's split for the stratum (applied repeatedly: the
   product of the splits of the strata the compartment belongs to) *)
Theorem sv_spec_value s cvs c' v' :
  In (c', v') (sv_spec s cvs) ->
  exists c v, In (c, v) cvs /\
    ((has_name_in_list c (s_comps s) = true /\ exists st, In st (s_strata s) /\ c' = stratify_comp c (s_name s) st /\ v' = fmul O v (split_of s st))
     \/ (has_name_in_list c (s_comps s) = false /\ c' = c /\ v' = v)).
Proof.
  unfold sv_spec. rewrite in_flat_map. intros [[c v] [Hin H]]. exists c, v. split; [exact Hin|]. cbn [fst snd] in H.
  destruct (has_name_in_list c (s_comps s)).
  - left. split; [reflexivity|]. apply in_map_iff in H. destruct H as [st [E Hst]]. injection E as <- <-. exists st. auto.
  - right. destruct H as [E|[]]. injection E as <- <-. auto.
Qed.

End Init.
