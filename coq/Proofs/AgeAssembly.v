(* C03, assembly for the age stratification: the ageing flows it adds stay inside one group of copies, so they cancel
   in every group total. *)
From Coq Require Import QArith List String Bool Arith Lia.
Import ListNotations.
From S2 Require Import Base.Num Base.Arr Model.Expr Model.Struct Model.Program
     Proofs.ArrLemmas Proofs.NumLemmas Proofs.BuildProofs Proofs.SelectProofs Proofs.CopiesProofs Proofs.InvarianceProofs
     Proofs.Assembly Proofs.SameKeys.
Local Open Scope nat_scope.
Local Notation length := List.length.

(* two strata lists with the same distinct keys, the second containing every pair of the first: equal *)
Lemma strata_same_keys_agree (l1 l2 : strata) :
  map fst l1 = map fst l2 -> NoDup (map fst l2) -> (forall kv, In kv l1 -> In kv l2) -> l1 = l2.
Proof.
  revert l2. induction l1 as [|[k1 v1] t1 IH]; intros [|[k2 v2] t2] Hk Hnd Hsub; cbn in Hk; try discriminate; [reflexivity|].
  injection Hk as -> Hk. cbn [map fst] in Hnd. inversion Hnd as [|? ? Hnot Hnd']; subst.
  f_equal.
  - destruct (Hsub (k2, v1) (or_introl eq_refl)) as [Eq|Hin]; [congruence|].
    exfalso. apply Hnot. apply (in_map fst) in Hin. exact Hin.
  - apply IH; [exact Hk | exact Hnd' |]. intros kv Hkv.
    destruct (Hsub kv (or_intror Hkv)) as [Eq|Hin]; [|exact Hin]. exfalso. subst kv.
    apply Hnot. rewrite <- Hk. apply (in_map fst) in Hkv. exact Hkv.
Qed.

Section AgeGroups.
Variables (s : strat) (prev : list comp).
Hypothesis Hnd : forall c, In c prev -> NoDup (keys_of c).
Hypothesis Hfresh : forall c, In c prev -> ~ In (s_name s) (keys_of c).
Hypothesis SK : same_keys prev.

(* a compartment of the stratified list that has the name of c and carries every stratum of a copy of c is a copy of c *)
Lemma match_in_group c a c' :
  In c prev -> In c' (stratify_comps s prev) ->
  c_name c' = c_name c -> query_match c' (c_strata (stratify_comp c (s_name s) a)) = true ->
  In c' (group s c).
Proof.
  intros Hc Hc' En Hq.
  rewrite stratify_comps_groups in Hc'. apply in_flat_map in Hc'. destruct Hc' as [c0 [Hc0 Hin]].
  assert (Ekeys : keys_of c0 = keys_of c) by (apply SK; [exact Hc0 | exact Hc | unfold group in Hin;
     destruct (has_name_in_list c0 (s_comps s)); [apply in_map_iff in Hin; destruct Hin as [st [<- _]]; exact En
                                                | destruct Hin as [<-|[]]; exact En]]).
  cbn [stratify_comp c_strata] in Hq. rewrite (strata_set_fresh _ _ _ (Hfresh c Hc)) in Hq.
  unfold query_match in Hq. rewrite forallb_forall in Hq.
  unfold group in Hin. destruct (has_name_in_list c0 (s_comps s)) eqn:E0.
  - apply in_map_iff in Hin. destruct Hin as [st [<- Hst]].
    cbn [stratify_comp c_strata] in Hq. rewrite (strata_set_fresh _ _ _ (Hfresh c0 Hc0)) in Hq.
    assert (Hnd0 : NoDup (map fst (c_strata c0 ++ [(s_name s, st)]))).
    { rewrite map_app. cbn [map fst]. apply NoDup_app_singleton; [apply (Hnd c0 Hc0) | apply (Hfresh c0 Hc0)]. }
    assert (Es : c_strata c = c_strata c0).
    { apply strata_same_keys_agree; [symmetry; exact Ekeys | apply (Hnd c0 Hc0) |].
      intros [k v] Hkv. specialize (Hq (k, v) (in_or_app _ _ _ (or_introl Hkv))). cbn [fst snd] in Hq.
      destruct (strata_get (c_strata c0 ++ [(s_name s, st)]) k) as [v'|] eqn:Eg; [|discriminate].
      apply String.eqb_eq in Hq. subst v'. apply (strata_get_in _ _ _ Hnd0) in Eg.
      apply in_app_or in Eg. destruct Eg as [Hin|[Eq|[]]]; [exact Hin|].
      exfalso. injection Eq as Ek _. apply (Hfresh c Hc). rewrite Ek. apply (in_map fst) in Hkv. exact Hkv. }
    assert (Ec : c0 = c) by (destruct c0, c; cbn in *; subst; reflexivity).
    subst c0. unfold group. rewrite E0. apply in_map. exact Hst.
  - exfalso. destruct Hin as [<-|[]].
    assert (Hina : In (s_name s, a) (c_strata c ++ [(s_name s, a)])) by (apply in_or_app; right; left; reflexivity).
    specialize (Hq (s_name s, a) Hina). cbn [fst snd] in Hq.
    destruct (strata_get (c_strata c0) (s_name s)) as [v'|] eqn:Eg; [|discriminate].
    apply (strata_get_in _ _ _ (Hnd c0 Hc0)) in Eg. apply (Hfresh c0 Hc0). apply (in_map fst) in Eg. exact Eg.
Qed.

End AgeGroups.

(* ---------------------------------------------------------------- the flows an age stratification adds *)
Lemma add_transition_like_ends m k name param src dst sf df expected m' :
  add_transition_like m k name param src dst sf df expected = Ok m' ->
  exists new, m' = upd_flows m (m_flows m ++ new)
    /\ forall g, In g new -> f_kind g = k /\ exists a b, f_src g = Some a /\ f_dst g = Some b
         /\ In a (m_comps m) /\ c_name a = src /\ query_match a sf = true
         /\ In b (m_comps m) /\ c_name b = dst /\ query_match b df = true.
Proof.
  unfold add_transition_like, not_finalized, check_count, bind. intro H. inv_guard H.
  destruct (matching_comps m dst df) as [dests|] eqn:Ed; [|discriminate].
  destruct (matching_comps m src sf) as [srcs|] eqn:Es; [|discriminate]. inv_guard H.
  assert (M : forall nm f l c, matching_comps m nm f = Ok l -> In c l -> In c (m_comps m) /\ c_name c = nm /\ query_match c f = true).
  { intros nm f l c E Hin. unfold matching_comps in E. destruct (existsb _ _); [|discriminate]. injection E as <-.
    apply filter_In in Hin. destruct Hin as [Hin Hb]. apply andb_true_iff in Hb. destruct Hb as [Hn Hq].
    apply String.eqb_eq in Hn. auto. }
  destruct expected; [inv_guard H|]; injection H as <-; eexists; (split; [reflexivity|]);
    intros g Hg; apply in_zip_with in Hg; destruct Hg as [a [b [Ha [Hb ->]]]]; (split; [reflexivity|]); exists a, b; cbn [f_src f_dst];
    destruct (M _ _ _ _ Es Ha) as (? & ? & ?); destruct (M _ _ _ _ Ed Hb) as (? & ? & ?); repeat split; assumption.
Qed.

Definition ageing_spec_of (s : strat) (c : comp) (a b : nat) : flow_spec :=
  let src := stratify_comp c (s_name s) (str_of_nat a) in
  let dst := stratify_comp c (s_name s) (str_of_nat b) in
  FlowSpec KTrans
    (String.append "ageing_" (String.append (serialize src) (String.append "_to_" (serialize dst))))
    (EConst (1 # Pos.of_nat (b - a))) (c_name src) (c_name dst) (c_strata src) (c_strata dst) (Some 1) false.

Lemma in_ageing_specs s prev fs : In fs (ageing_specs s prev) -> exists c a b, In c prev /\ fs = ageing_spec_of s c a b.
Proof.
  unfold ageing_specs. intro H. apply in_flat_map in H. destruct H as [[a b] [_ H]].
  apply in_map_iff in H. destruct H as [c [<- Hc]]. exists c, a, b. split; [exact Hc|reflexivity].
Qed.

Section AgeFold.
Variables (s : strat) (prev : list comp).
Hypothesis Hnd : forall c, In c prev -> NoDup (keys_of c).
Hypothesis Hfresh : forall c, In c prev -> ~ In (s_name s) (keys_of c).
Hypothesis SK : same_keys prev.

Definition inside_a_group (g : flow) : Prop :=
  f_kind g = KTrans /\ exists c0 a b, In c0 prev /\ f_src g = Some a /\ f_dst g = Some b /\ In a (group s c0) /\ In b (group s c0).

Lemma ageing_fold specs : (forall fs, In fs specs -> exists c a b, In c prev /\ fs = ageing_spec_of s c a b) ->
  forall m1 m2, m_comps m1 = stratify_comps s prev ->
  fold_left (fun r fs => bind r (fun m' => add_flow m' fs)) specs (Ok m1) = Ok m2 ->
  exists extra, m_flows m2 = m_flows m1 ++ extra /\ forall g, In g extra -> inside_a_group g.
Proof.
  induction specs as [|fs specs IH]; intros Hspecs m1 m2 Hc H; cbn [fold_left] in H.
  - injection H as <-. exists []. split; [rewrite app_nil_r; reflexivity | intros g []].
  - cbn [bind] in H. destruct (add_flow m1 fs) as [m1'|w] eqn:E.
    + destruct (Hspecs fs (or_introl eq_refl)) as (c & a & b & Hcin & ->).
      unfold ageing_spec_of, add_flow in E. cbv zeta in E.
      destruct (add_transition_like_ends _ _ _ _ _ _ _ _ _ _ E) as [new [-> Hnew]].
      destruct (IH (fun fs' Hin => Hspecs fs' (or_intror Hin)) (upd_flows m1 (m_flows m1 ++ new)) m2 Hc H) as [extra [Hfl Hex]].
      exists (new ++ extra). cbn [upd_flows m_flows] in Hfl. rewrite Hfl, app_assoc. split; [reflexivity|].
      intros g Hg. apply in_app_or in Hg. destruct Hg as [Hg|Hg]; [|apply Hex; exact Hg].
      destruct (Hnew g Hg) as (Hkd & x & y & Hs & Hd & Hx & Hxn & Hxq & Hy & Hyn & Hyq).
      split; [exact Hkd|].
      exists c, x, y. rewrite Hc in Hx, Hy. repeat split; try assumption.
      * apply (match_in_group s prev Hnd Hfresh SK c (str_of_nat a) x Hcin Hx Hxn Hxq).
      * apply (match_in_group s prev Hnd Hfresh SK c (str_of_nat b) y Hcin Hy Hyn Hyq).
    + exfalso. clear -H. induction specs as [|a0 l IHl]; cbn in H; [discriminate|auto].
Qed.

End AgeFold.

Lemma stratify_with_flows_age m s0 m' :
  stratify_with m s0 = Ok m' -> is_age (s_kind (normalise_strat s0)) = true ->
  exists m1 m2,
    m_comps m1 = stratify_comps (normalise_strat s0) (m_comps m)
    /\ m_flows m1 = flat_map (copies_of (normalise_strat s0)) (m_flows m)
    /\ fold_left (fun r fs => bind r (fun m' => add_flow m' fs)) (ageing_specs (normalise_strat s0) (m_comps m)) (Ok m1) = Ok m2
    /\ m_flows m' = m_flows m2.
Proof.
  unfold stratify_with, not_finalized. intros H Hage. cbn zeta in H.
  unfold bind at 1 in H. destruct (validate_strat_object s0); [|discriminate].
  inv_guard H.
  repeat match type of H with
         | context [match s_mix ?s with _ => _ end] => destruct (s_mix s) eqn:?; cbn [bind] in H; inv_guard H
         | context [if is_strain ?k then _ else _] => destruct (is_strain k) eqn:?; cbn [bind] in H; inv_guard H
         end;
  (unfold bind at 1 in H;
   match type of H with context [collect ?f ?l] => destruct (collect f l) as [fl0|] eqn:Ecol; [|discriminate] end;
   rewrite Hage in H; cbn [bind] in H; inv_guard H;
   match type of H with context [fold_left ?f ?l (Ok ?m1)] => destruct (fold_left f l (Ok m1)) as [m2|] eqn:Efold; [|discriminate];
       exists m1, m2 end;
   injection H as <-; cbn [m_flows m_comps];
   apply collect_flat_map in Ecol; repeat split; [exact Ecol | exact Efold]).
Qed.

Section AgeConcrete.
Variable O : NumOps.
Variable T : NumTheory O.

(* the assembly for the age stratification of a well-formed model in which compartments of one name carry the same
   stratifications (every built model): the ageing flows cancel in every group *)
Theorem stratified_net_rates_age (m : model) (s0 : strat) (m' : model) (rate rate' : flow -> F O) :
  wf m -> same_keys (m_comps m) -> NoDup (s_strata (normalise_strat s0)) ->
  stratify_with m s0 = Ok m' -> is_age (s_kind (normalise_strat s0)) = true ->
  (forall f, In f (m_flows m) -> fsum O (map rate' (copies_of (normalise_strat s0) f)) = rate f) ->
  forall c, In c (m_comps m) ->
    fsum O (map (fun c' => net_rate O rate' (m_flows m') c') (group (normalise_strat s0) c)) = net_rate O rate (m_flows m) c.
Proof.
  intros W SK Hst H Hage Hrate c Hc.
  set (s := normalise_strat s0) in *.
  destruct (stratify_with_inv _ _ _ H) as [_ [_ [Hfresh0 _]]]. fold s in Hfresh0.
  assert (Hfresh : forall c0, In c0 (m_comps m) -> ~ In (s_name s) (keys_of c0)).
  { intros c0 Hc0 Hin. apply (mem_str_false_notin _ _ Hfresh0). apply (wf_known_keys m W c0 _ Hc0 Hin). }
  destruct (stratify_with_flows_age m s0 m' H Hage) as (m1 & m2 & Hc1 & Hf1 & Hfold & Hfl). fold s in Hc1, Hf1, Hfold.
  destruct (ageing_fold s (m_comps m) (wf_nodup_keys m W) Hfresh SK (ageing_specs s (m_comps m))
              (in_ageing_specs s (m_comps m)) m1 m2 Hc1 Hfold) as [extra [Hext Hin]].
  rewrite Hfl, Hext, Hf1.
  apply (aggregate_net_rates O T (m_comps m) (m_flows m) extra (copies_of s) (group s) rate rate').
  - intros f c0 Hf Hend. apply (proj1 (wf_flows m W f Hf)). exact Hend.
  - intros f g Hf Hg. unfold copies_of in Hg. destruct (stratify_flow s f) as [l|] eqn:E; [|destruct Hg].
    apply (copies_ends_in_groups s f l g (proj2 (wf_flows m W f Hf)) E Hg).
  - intros f g Hf Hg. unfold copies_of in Hg. destruct (stratify_flow s f) as [l|] eqn:E; [|destruct Hg].
    apply (copies_ends_in_groups s f l g (proj2 (wf_flows m W f Hf)) E Hg).
  - intros c1 c2 c' H1 H2. apply (group_disjoint s (m_comps m)); assumption.
  - intros c0 Hin0. apply group_nodup; [exact Hst | apply Hfresh; exact Hin0].
  - exact Hrate.
  - intros g Hg. destruct (Hin g Hg) as (_ & c0 & a & b & Hc0 & Hs & Hd & Ha & Hb). exists c0, a, b. auto.
  - exact Hc.
Qed.

(* both cases together, for the models the build API produces *)
Theorem stratified_net_rates_built t0 t1 h comps inf ops (m : model) (s0 : strat) (m' : model) (rate rate' : flow -> F O) :
  build_ok t0 t1 h comps inf ops = Some m -> NoDup (s_strata (normalise_strat s0)) ->
  stratify_with m s0 = Ok m' ->
  (forall f, In f (m_flows m) -> fsum O (map rate' (copies_of (normalise_strat s0) f)) = rate f) ->
  forall c, In c (m_comps m) ->
    fsum O (map (fun c' => net_rate O rate' (m_flows m') c') (group (normalise_strat s0) c)) = net_rate O rate (m_flows m) c.
Proof.
  intros Hb Hst H Hrate c Hc.
  pose proof (wf_build _ _ _ _ _ _ _ Hb) as W. pose proof (same_keys_build _ _ _ _ _ _ _ Hb) as SK.
  destruct (is_age (s_kind (normalise_strat s0))) eqn:Hage.
  - apply (stratified_net_rates_age m s0 m' rate rate' W SK Hst H Hage Hrate c Hc).
  - apply (stratified_net_rates O T m s0 m' rate rate' W Hst H Hage Hrate c Hc).
Qed.

End AgeConcrete.
