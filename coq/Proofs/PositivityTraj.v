(* C18 along whole Euler runs: if at every time and every non-negative state the weights and force-of-infection
   multipliers are non-negative, no flow with a source is an absolute flow, and step x exit coefficient <= 1 for every
   compartment, then every row of the Euler run from a non-negative initial state is non-negative. *)
From Coq Require Import QArith Field Ring List String Bool Arith Lia.
Import ListNotations.
From S2 Require Import Base.Num Base.Arr Model.Expr Model.Struct Model.Rates Model.Solvers Spec.RatesSpec
     Proofs.ArrLemmas Proofs.NumLemmas Proofs.OrderLemmas Proofs.WeightProofs Proofs.RatesProofs
     Proofs.BuildProofs Proofs.ConservationProofs Proofs.PositivityProofs.
Local Open Scope nat_scope.
Local Notation length := List.length.

Section PositivityTraj.
Variable O : NumOps.
Variable T : NumTheory O.
Notation F := (F O).
Notation "x <= y" := (fle O T x y).
Notation "0" := (f0 O).

Variables (m : model) (b : backend) (p : env O) (h : F).
Hypothesis Hb : prepare_structural m = Ok b.
Hypothesis shapes : forall f, In f (m_flows m) -> flow_shape f.
Hypothesis no_abs_out : forall f c, In f (m_flows m) -> f_src f = Some c -> fkind_eqb (f_kind f) KAbs = false.
Hypothesis Hh : 0 <= h.

Definition nonneg (y : list F) : Prop := Forall (fun v => 0 <= v) y.

(* what is asked of the inputs at every point the run visits *)
Hypothesis weights_nonneg : forall t y f, length y = length (m_comps m) -> nonneg y -> In f (m_flows m) ->
                                          0 <= weight_spec O p t (vclean O y) f.
Hypothesis muls_nonneg : forall t y k, length y = length (m_comps m) -> nonneg y -> 0 <= nth k (muls_of O m b p t y) 0.
Hypothesis step_small : forall t y s, length y = length (m_comps m) -> nonneg y -> s < length (m_comps m) ->
                                      fmul O h (exit_coeff O m b p t y s) <= f1 O.

Lemma nonneg_nth y s : nonneg y -> s < length y -> 0 <= nth s y 0.
Proof. intros Hy Hs. unfold nonneg in Hy. rewrite Forall_forall in Hy. apply Hy. apply nth_In. exact Hs. Qed.

Lemma nonneg_of_nth y : (forall s, s < length y -> 0 <= nth s y 0) -> nonneg y.
Proof.
  intro Hn. unfold nonneg. rewrite Forall_forall. intros v Hv. destruct (In_nth _ _ 0 Hv) as [s [Hs <-]]. apply Hn. exact Hs.
Qed.

Lemma euler_step_nonneg t y : length y = length (m_comps m) -> nonneg y ->
  nonneg (euler_step O (fun t y => get_comp_rates O m b p t y) h t y)
  /\ length (euler_step O (fun t y => get_comp_rates O m b p t y) h t y) = length (m_comps m).
Proof.
  intros Hlen Hy. unfold euler_step.
  assert (Hr : length (get_comp_rates O m b p t y) = length (m_comps m)) by apply get_comp_rates_length.
  assert (Hl : length (vadd O y (vscale O h (get_comp_rates O m b p t y))) = length (m_comps m)).
  { rewrite (vadd_length O), (vscale_length O), Hr, Hlen. apply Nat.min_id. }
  split; [|exact Hl]. apply nonneg_of_nth. intros s Hs. rewrite Hl in Hs.
  unfold vadd, vscale. rewrite (nth_zip_with (fadd O) _ _ s 0 0 0) by (try rewrite map_length; rewrite ?Hr, ?Hlen; exact Hs).
  rewrite (nth_indep (map (fmul O h) (get_comp_rates O m b p t y)) 0 (fmul O h 0)) by (rewrite map_length, Hr; exact Hs). rewrite map_nth.
  apply (euler_keeps_nonneg O T m b p t y Hb (fun f Hf => weights_nonneg t y f Hlen Hy Hf) (fun k => muls_nonneg t y k Hlen Hy) shapes s h Hs Hlen).
  - apply nonneg_nth; [exact Hy | rewrite Hlen; exact Hs].
  - intros f c Hf Hsrc _. exact (no_abs_out f c Hf Hsrc).
  - exact Hh.
  - exact (step_small t y s Hlen Hy Hs).
Qed.

Theorem euler_trajectory_nonneg (k : nat) : forall (t : F) (y : list F),
  length y = length (m_comps m) -> nonneg y ->
  Forall nonneg (solve_fixed O (euler_step O) (fun t y => get_comp_rates O m b p t y) t h y k).
Proof.
  unfold solve_fixed. induction k as [|k IH]; intros t y Hlen Hy; cbn [iterate_steps].
  - constructor; [exact Hy|constructor].
  - destruct (euler_step_nonneg t y Hlen Hy) as [Hy' Hl']. constructor; [exact Hy|]. apply IH; assumption.
Qed.

End PositivityTraj.
