(* Frame and inversion lemmas for the build API, and the well-formedness invariant of every
   model reachable through it (C12; used by C13, C04, C06). *)
From Coq Require Import QArith List String Bool Arith Lia.
Import ListNotations.
From S2 Require Import Base.Num Base.Arr Model.Expr Model.Struct Model.Program Spec.SelectSpec
     Proofs.ArrLemmas Proofs.SelectProofs.
Local Open Scope nat_scope.
Local Notation length := List.length.

Ltac inv_guard H :=
  repeat match type of H with
         | context [guard ?c _] => destruct c eqn:?; cbn [guard bind] in H; [|discriminate]
         end.

(* ------------------------------------------------------------ adding flows only changes flows *)
Lemma add_entry_flow_frame m k name param dst dst_f expected adjs m' :
  add_entry_flow m k name param dst dst_f expected adjs = Ok m' -> exists new, m' = upd_flows m (m_flows m ++ new).
Proof.
  unfold add_entry_flow, not_finalized, check_count, bind. intro H. inv_guard H.
  destruct expected; [inv_guard H|]; injection H as <-; eexists; reflexivity.
Qed.

Lemma add_exit_flow_frame m name param src src_f expected m' :
  add_exit_flow m name param src src_f expected = Ok m' -> exists new, m' = upd_flows m (m_flows m ++ new).
Proof.
  unfold add_exit_flow, not_finalized, check_count, bind. intro H. inv_guard H.
  destruct expected; [inv_guard H|]; injection H as <-; eexists; reflexivity.
Qed.

Lemma add_transition_like_frame m k name param src dst src_f dst_f expected m' :
  add_transition_like m k name param src dst src_f dst_f expected = Ok m' ->
  exists new, m' = upd_flows m (m_flows m ++ new).
Proof.
  unfold add_transition_like, not_finalized, check_count, bind. intro H. inv_guard H.
  destruct (matching_comps m dst dst_f); [|discriminate].
  destruct (matching_comps m src src_f); [|discriminate]. inv_guard H.
  destruct expected; [inv_guard H|]; injection H as <-; eexists; reflexivity.
Qed.

Lemma add_flow_frame m fs m' : add_flow m fs = Ok m' -> exists fl, m' = upd_flows m fl.
Proof.
  destruct fs as [k name param src dst src_f dst_f expected split]. unfold add_flow, bind.
  destruct k; intro H; inv_guard H;
    try (apply add_entry_flow_frame in H; destruct H as [new ->]; eexists; reflexivity);
    try (apply add_exit_flow_frame in H; destruct H as [new ->]; eexists; reflexivity);
    try (apply add_transition_like_frame in H; destruct H as [new ->]; eexists; reflexivity).
  destruct split; inv_guard H; apply add_entry_flow_frame in H; destruct H as [new ->]; eexists; reflexivity.
Qed.

Lemma add_flows_frame specs : forall m1 m2,
  fold_left (fun r fs => bind r (fun m' => add_flow m' fs)) specs (Ok m1) = Ok m2 -> exists fl, m2 = upd_flows m1 fl.
Proof.
  induction specs as [|fs specs IH]; intros m1 m2 H; cbn [fold_left] in H.
  - injection H as <-. exists (m_flows m1). destruct m1; reflexivity.
  - cbn [bind] in H. destruct (add_flow m1 fs) as [m1'|w] eqn:E.
    + destruct (add_flow_frame _ _ _ E) as [fl ->]. destruct (IH _ _ H) as [fl' ->]. exists fl'. reflexivity.
    + exfalso. clear -H. induction specs as [|a l IHl]; cbn in H; [discriminate|auto].
Qed.

(* ------------------------------------------------------------ stratify_with, inverted *)
Lemma stratify_with_inv m s0 m' :
  stratify_with m s0 = Ok m' ->
  let s := normalise_strat s0 in
  m_comps m' = stratify_comps s (m_comps m)
  /\ m_strats m' = m_strats m ++ [s]
  /\ mem_str (s_name s) (strat_names m) = false
  /\ m_orig m' = m_orig m /\ m_infectious m' = m_infectious m /\ m_times m' = m_times m
  /\ m_finalized m = false /\ m_requests m' = m_requests m.
Proof.
  unfold stratify_with, not_finalized. intro H. cbn zeta in H.
  unfold bind at 1 in H. destruct (validate_strat_object s0); [|discriminate].
  inv_guard H.
  repeat match type of H with
         | context [match s_mix ?s with _ => _ end] => destruct (s_mix s) eqn:?; cbn [bind] in H; inv_guard H
         | context [if is_strain ?k then _ else _] => destruct (is_strain k) eqn:?; cbn [bind] in H; inv_guard H
         end;
  (unfold bind at 1 in H;
   match type of H with context [collect ?f ?l] => destruct (collect f l) as [fl0|] eqn:Ecol; [|discriminate] end;
   destruct (is_age (s_kind (normalise_strat s0))) eqn:Eage; cbn [bind] in H; inv_guard H;
   [ match type of H with context [fold_left ?f ?l ?a] => destruct (fold_left f l a) as [m2|] eqn:Efold; [|discriminate] end;
     apply add_flows_frame in Efold; destruct Efold as [fl ->]; injection H as <-
   | injection H as <- ];
   cbn; repeat split; auto; apply negb_true_iff; assumption).
Qed.

(* ------------------------------------------------------------ well-formedness invariant *)
Definition keys_of (c : comp) : list string := map fst (c_strata c).

Record wf_model (m : model) : Prop := {
  wf_keys_nodup : forall c, In c (m_comps m) -> NoDup (keys_of c);
  wf_keys_known : forall c k, In c (m_comps m) -> In k (keys_of c) -> In k (strat_names m);
  wf_flow_ends : forall f c, In f (m_flows m) -> (f_src f = Some c \/ f_dst f = Some c) -> In c (m_comps m)
}.

Lemma mem_str_false_notin x l : mem_str x l = false -> ~ In x l.
Proof.
  unfold mem_str. intros H Hin. assert (existsb (String.eqb x) l = true); [|congruence].
  apply existsb_exists. exists x. split; [exact Hin|apply String.eqb_refl].
Qed.

Lemma mem_str_true_in x l : mem_str x l = true -> In x l.
Proof.
  unfold mem_str. intro H. apply existsb_exists in H. destruct H as [y [Hy E]].
  apply String.eqb_eq in E. subst. exact Hy.
Qed.

Lemma strata_set_fresh s k v : ~ In k (map fst s) -> strata_set s k v = s ++ [(k, v)].
Proof.
  induction s as [|[k' v'] s IH]; cbn; intro H; [reflexivity|].
  destruct (String.eqb_spec k k') as [->|Hne]; [elim H; left; reflexivity|].
  rewrite IH; [reflexivity|]. intro Hin; apply H; right; exact Hin.
Qed.

Lemma stratify_comp_keys c sname st :
  ~ In sname (keys_of c) -> keys_of (stratify_comp c sname st) = keys_of c ++ [sname].
Proof.
  intro H. unfold keys_of, stratify_comp. cbn [c_strata]. rewrite strata_set_fresh by exact H.
  rewrite map_app. reflexivity.
Qed.

Lemma in_stratify_comps s cs c' :
  In c' (stratify_comps s cs) <->
  exists c, In c cs /\ ((has_name_in_list c (s_comps s) = true /\ exists st, In st (s_strata s) /\ c' = stratify_comp c (s_name s) st)
                        \/ (has_name_in_list c (s_comps s) = false /\ c' = c)).
Proof.
  unfold stratify_comps. rewrite in_flat_map. split.
  - intros [c [Hc Hin]]. exists c. split; [exact Hc|]. destruct (has_name_in_list c (s_comps s)).
    + left. split; [reflexivity|]. apply in_map_iff in Hin. destruct Hin as [st [E Hst]]. exists st. auto.
    + right. destruct Hin as [<-|[]]. auto.
  - intros [c [Hc [[Hn [st [Hst ->]]]|[Hn ->]]]]; exists c; (split; [exact Hc|]); rewrite Hn.
    + apply in_map. exact Hst.
    + left; reflexivity.
Qed.

Lemma wf_new_model t0 t1 h comps inf m : new_model t0 t1 h comps inf = Ok m -> wf_model m.
Proof.
  unfold new_model, bind. intro H. inv_guard H. injection H as <-. split; cbn.
  - intros c Hc. apply in_map_iff in Hc. destruct Hc as [n [<- _]]. constructor.
  - intros c k Hc Hk. apply in_map_iff in Hc. destruct Hc as [n [<- _]]. destruct Hk.
  - intros f c [].
Qed.

Definition ends_in (cs : list comp) (f : flow) : Prop :=
  forall c, (f_src f = Some c \/ f_dst f = Some c) -> In c cs.

Lemma in_zip_with {A B C} (g : A -> B -> C) l1 l2 z :
  In z (zip_with g l1 l2) -> exists a b, In a l1 /\ In b l2 /\ z = g a b.
Proof.
  revert l2; induction l1 as [|a l1 IH]; intros l2 H; destruct l2 as [|b l2]; cbn in H; try contradiction.
  destruct H as [<-|H].
  - exists a, b. repeat split; left; reflexivity.
  - destruct (IH _ H) as [a' [b' [Ha [Hb E]]]]. exists a', b'. repeat split; try right; assumption.
Qed.

Lemma matching_comps_in m name filt cs c : matching_comps m name filt = Ok cs -> In c cs -> In c (m_comps m).
Proof.
  unfold matching_comps. destruct (existsb _ _); [|discriminate]. intro E; injection E as <-.
  intro H. apply filter_In in H. apply H.
Qed.

(* entry flows have no source, exit flows no destination *)
Definition flow_shape (f : flow) : Prop :=
  (is_entry (f_kind f) = true -> f_src f = None) /\ (is_exit (f_kind f) = true -> f_dst f = None).

Definition flow_ok (cs : list comp) (f : flow) : Prop := ends_in cs f /\ flow_shape f.

Lemma add_flow_new m fs m' :
  add_flow m fs = Ok m' ->
  exists new, m' = upd_flows m (m_flows m ++ new) /\ forall f, In f new -> flow_ok (m_comps m) f.
Proof.
  destruct fs as [k name param src dst src_f dst_f expected split]. unfold add_flow, bind.
  assert (Hentry : forall k' prm adjs, is_exit k' = false ->
            add_entry_flow m k' name prm dst dst_f expected adjs = Ok m' ->
            exists new, m' = upd_flows m (m_flows m ++ new) /\ forall f, In f new -> flow_ok (m_comps m) f).
  { intros k' prm adjs Hk H. unfold add_entry_flow, not_finalized, check_count, bind in H. inv_guard H.
    destruct expected; [inv_guard H|]; injection H as <-; eexists; (split; [reflexivity|]);
      intros f Hf; apply in_map_iff in Hf; destruct Hf as [c [<- Hc]]; apply filter_In in Hc;
      (split; [intros c' [E|E]; cbn in E; try discriminate; injection E as <-; apply Hc
              | split; cbn; [reflexivity | rewrite Hk; discriminate]]). }
  assert (Hexit : add_exit_flow m name param src src_f expected = Ok m' ->
            exists new, m' = upd_flows m (m_flows m ++ new) /\ forall f, In f new -> flow_ok (m_comps m) f).
  { intros H. unfold add_exit_flow, not_finalized, check_count, bind in H. inv_guard H.
    destruct expected; [inv_guard H|]; injection H as <-; eexists; (split; [reflexivity|]);
      intros f Hf; apply in_map_iff in Hf; destruct Hf as [c [<- Hc]]; apply filter_In in Hc;
      (split; [intros c' [E|E]; cbn in E; try discriminate; injection E as <-; apply Hc
              | split; cbn; [discriminate | reflexivity]]). }
  assert (Htrans : forall k', is_entry k' = false -> is_exit k' = false ->
            add_transition_like m k' name param src dst src_f dst_f expected = Ok m' ->
            exists new, m' = upd_flows m (m_flows m ++ new) /\ forall f, In f new -> flow_ok (m_comps m) f).
  { intros k' Hk1 Hk2 H. unfold add_transition_like, not_finalized, check_count, bind in H. inv_guard H.
    destruct (matching_comps m dst dst_f) as [dests|] eqn:Ed; [|discriminate].
    destruct (matching_comps m src src_f) as [srcs|] eqn:Es; [|discriminate]. inv_guard H.
    destruct expected; [inv_guard H|]; injection H as <-; eexists; (split; [reflexivity|]);
      intros f Hf; apply in_zip_with in Hf; destruct Hf as [a [b' [Ha [Hb' ->]]]];
      (split; [intros c' [E|E]; cbn in E; injection E as <-;
               first [exact (matching_comps_in _ _ _ _ _ Es Ha) | exact (matching_comps_in _ _ _ _ _ Ed Hb')]
              | split; cbn; [rewrite Hk1; discriminate | rewrite Hk2; discriminate]]). }
  destruct k; intro H; inv_guard H;
    try (apply Hentry in H; [exact H | reflexivity]);
    try (apply Hexit in H; exact H);
    try (apply Htrans in H; [exact H | reflexivity | reflexivity]).
  destruct split; inv_guard H; (apply Hentry in H; [exact H | reflexivity]).
Qed.

Lemma add_flows_new specs : forall m1 m2,
  fold_left (fun r fs => bind r (fun m' => add_flow m' fs)) specs (Ok m1) = Ok m2 ->
  exists new, m2 = upd_flows m1 (m_flows m1 ++ new) /\ forall f, In f new -> flow_ok (m_comps m1) f.
Proof.
  induction specs as [|fs specs IH]; intros m1 m2 H; cbn [fold_left] in H.
  - injection H as <-. exists []. split; [rewrite app_nil_r; destruct m1; reflexivity | intros f []].
  - cbn [bind] in H. destruct (add_flow m1 fs) as [m1'|w] eqn:E.
    + destruct (add_flow_new _ _ _ E) as [new1 [-> Hn1]]. destruct (IH _ _ H) as [new2 [-> Hn2]].
      exists (new1 ++ new2). cbn. rewrite app_assoc. split; [reflexivity|].
      intros f Hf. apply in_app_or in Hf. destruct Hf; auto.
    + exfalso. clear -H. induction specs as [|a l IHl]; cbn in H; [discriminate|auto].
Qed.

Lemma collect_in {A B} (g : A -> result (list B)) l r b :
  collect g l = Ok r -> In b r -> exists a rb, In a l /\ g a = Ok rb /\ In b rb.
Proof.
  revert r; induction l as [|a l IH]; intros r E Hb; cbn in E.
  - injection E as <-. destruct Hb.
  - unfold bind in E. destruct (g a) as [ra|] eqn:Ea; [|discriminate].
    destruct (collect g l) as [rl|] eqn:El; [|discriminate]. injection E as <-.
    apply in_app_or in Hb. destruct Hb as [Hb|Hb].
    + exists a, ra. repeat split; auto. left; reflexivity.
    + destruct (IH rl eq_refl Hb) as [a' [rb [Ha' [Eg Hb']]]]. exists a', rb. repeat split; auto. right; exact Ha'.
Qed.


Lemma match_kabs {A} (k : fkind) (a b : A) :
  match k with KAbs => a | _ => b end = if fkind_eqb k KAbs then a else b.
Proof. destruct k; reflexivity. Qed.

(* every copy made by flow.stratify links compartments of the stratified model *)
Lemma stratify_flow_ends s cs f fl :
  ends_in cs f -> flow_shape f -> stratify_flow s f = Ok fl ->
  forall f', In f' fl -> ends_in (stratify_comps s cs) f' /\ flow_shape f'.
Proof.
  intros Hends [Hsh1 Hsh2] Hs.
  assert (Hpass : forall c, (f_src f = Some c \/ f_dst f = Some c) -> has_name_in_list c (s_comps s) = false ->
                             In c (stratify_comps s cs)).
  { intros c Hc Hn. apply in_stratify_comps. exists c. split; [apply Hends; exact Hc|]. right. auto. }
  assert (Hstrat : forall c st, (f_src f = Some c \/ f_dst f = Some c) -> has_name_in_list c (s_comps s) = true ->
                                In st (s_strata s) -> In (stratify_comp c (s_name s) st) (stratify_comps s cs)).
  { intros c st Hc Hn Hst. apply in_stratify_comps. exists c. split; [apply Hends; exact Hc|]. left.
    split; [exact Hn|]. exists st. auto. }
  set (mk := fun (st : string) (extra : list adj) =>
       {| f_name := f_name f; f_kind := f_kind f;
          f_src := opt_strat (f_src f) (s_name s) st (opt_in_list (f_src f) (s_comps s));
          f_dst := opt_strat (f_dst f) (s_name s) st (opt_in_list (f_dst f) (s_comps s));
          f_param := f_param f; f_adjs := f_adjs f ++ extra |}).
  assert (Hmk : forall st extra, In st (s_strata s) ->
     ends_in (stratify_comps s cs) (mk st extra) /\ flow_shape (mk st extra)).
  { intros st extra Hst. split.
    - intros c [E|E]; cbn in E.
      + destruct (f_src f) as [c0|] eqn:Ec; cbn in E; [|discriminate].
        destruct (has_name_in_list c0 (s_comps s)) eqn:Hn; injection E as <-; [apply Hstrat | apply Hpass]; auto.
      + destruct (f_dst f) as [c0|] eqn:Ec; cbn in E; [|discriminate].
        destruct (has_name_in_list c0 (s_comps s)) eqn:Hn; injection E as <-; [apply Hstrat | apply Hpass]; auto.
    - split; cbn; intro Hk; [rewrite (Hsh1 Hk) | rewrite (Hsh2 Hk)]; reflexivity. }
  assert (Hself : (forall c, (f_src f = Some c \/ f_dst f = Some c) -> has_name_in_list c (s_comps s) = false) ->
                  ends_in (stratify_comps s cs) f /\ flow_shape f).
  { intros Hno. split; [intros c Hc; apply Hpass; auto | split; assumption]. }
  assert (Hmapmk : forall (g : string -> list adj) (l : list string) f',
            (forall st, In st l -> In st (s_strata s)) -> In f' (map (fun st => mk st (g st)) l) ->
            ends_in (stratify_comps s cs) f' /\ flow_shape f').
  { intros g l f' Hl Hf'. apply in_map_iff in Hf'. destruct Hf' as [st [<- Hst]]. apply Hmk, Hl, Hst. }
  unfold stratify_flow in Hs. cbn zeta in Hs. fold mk in Hs.
  destruct (is_entry (f_kind f)) eqn:Ke.
  - specialize (Hsh1 eq_refl).
    destruct (opt_in_list (f_dst f) (s_comps s)) eqn:Ed; cbn [negb] in Hs.
    + unfold bind in Hs. destruct (get_flow_adjustment s f) as [fa|]; [|discriminate].
      destruct fa as [a|].
      * destruct (is_birth (f_kind f) && is_age (s_kind s)); [discriminate|]. injection Hs as <-.
        intros f' Hf'. apply (Hmapmk (fun st => adj_for a st) (s_strata s)); auto.
      * destruct (is_birth (f_kind f) && is_age (s_kind s)); injection Hs as <-; intros f' Hf'.
        -- apply (Hmapmk (fun _ => []) (filter (fun st => String.eqb st "0") (s_strata s))); auto.
           intros st Hst. apply filter_In in Hst. apply Hst.
        -- apply (Hmapmk (fun _ => [AMul (inv_count (length (s_strata s)))]) (s_strata s)); auto.
    + injection Hs as <-. intros f' [<-|[]]. apply Hself. intros c [E|E]; [congruence|].
      rewrite E in Ed. exact Ed.
  - destruct (is_exit (f_kind f)) eqn:Kx.
    + specialize (Hsh2 eq_refl).
      destruct (opt_in_list (f_src f) (s_comps s)) eqn:Ed; cbn [negb] in Hs.
      * unfold bind in Hs. destruct (get_flow_adjustment s f) as [fa|]; [|discriminate].
        injection Hs as <-. intros f' Hf'.
        apply (Hmapmk (fun st => match fa with Some a => adj_for a st | None => [] end) (s_strata s)); auto.
      * injection Hs as <-. intros f' [<-|[]]. apply Hself. intros c [E|E]; [|congruence].
        rewrite E in Ed. exact Ed.
    + destruct (opt_in_list (f_src f) (s_comps s) || opt_in_list (f_dst f) (s_comps s)) eqn:Eany; cbn [negb] in Hs.
      * unfold bind in Hs. destruct (get_flow_adjustment s f) as [fa|]; [|discriminate].
        set (conserve := (opt_in_list (f_dst f) (s_comps s) && negb (opt_in_list (f_src f) (s_comps s)))
                         && negb (is_strain (s_kind s)) && match fa with None => true | Some _ => false end) in *.
        match type of Hs with context [Nat.ltb 1 (List.length ?B)] => set (base := B) in * end.
        assert (Hbase : forall f', In f' base -> ends_in (stratify_comps s cs) f' /\ flow_shape f').
        { intros f' Hf'. unfold base in Hf'.
          exact (Hmapmk (fun st => if conserve then [AMul (inv_count (length (s_strata s)))]
                                   else match fa with Some a => adj_for a st | None => [] end) (s_strata s) f'
                        (fun st H => H) Hf'). }
        assert (Hremap : forall f', In f' (map (fun g => {| f_name := f_name g; f_kind := f_kind g; f_src := f_src g;
                                  f_dst := f_dst g; f_param := f_param g;
                                  f_adjs := f_adjs g ++ [AMul (inv_count (length base))] |}) base) ->
                          ends_in (stratify_comps s cs) f' /\ flow_shape f').
        { intros f' Hf'. apply in_map_iff in Hf'. destruct Hf' as [g [<- Hg]].
          destruct (Hbase g Hg) as [H1 [H2 H3]]. split; [intros c Hc; apply H1; exact Hc | split; cbn; assumption]. }
        rewrite (match_kabs (f_kind f)) in Hs. destruct (fkind_eqb (f_kind f) KAbs); [|injection Hs as <-; exact Hbase].
        destruct ((1 <? length base) && negb conserve); injection Hs as <-; [exact Hremap | exact Hbase].
      * injection Hs as <-. intros f' [<-|[]]. apply Hself. apply orb_false_iff in Eany. destruct Eany as [E1 E2].
        intros c [E|E]; [rewrite E in E1; exact E1 | rewrite E in E2; exact E2].
Qed.

(* stratify_with, inverted, flows included *)
Lemma stratify_with_flows m s0 m' :
  stratify_with m s0 = Ok m' ->
  let s := normalise_strat s0 in
  exists fl0 extra,
    collect (stratify_flow s) (m_flows m) = Ok fl0 /\ m_flows m' = fl0 ++ extra
    /\ forall f, In f extra -> flow_ok (stratify_comps s (m_comps m)) f.
Proof.
  unfold stratify_with, not_finalized. intro H. cbn zeta in H.
  unfold bind at 1 in H. destruct (validate_strat_object s0); [|discriminate].
  inv_guard H.
  repeat match type of H with
         | context [match s_mix ?s with _ => _ end] => destruct (s_mix s) eqn:?; cbn [bind] in H; inv_guard H
         | context [if is_strain ?k then _ else _] => destruct (is_strain k) eqn:?; cbn [bind] in H; inv_guard H
         end;
  (unfold bind at 1 in H;
   match type of H with context [collect ?f ?l] => destruct (collect f l) as [fl0|] eqn:Ecol; [|discriminate] end;
   destruct (is_age (s_kind (normalise_strat s0))) eqn:Eage; cbn [bind] in H; inv_guard H;
   [ match type of H with context [fold_left ?f ?l ?a] => destruct (fold_left f l a) as [m2|] eqn:Efold; [|discriminate] end;
     apply add_flows_new in Efold; destruct Efold as [new [-> Hnew]]; injection H as <-;
     exists fl0, new; cbn; repeat split; auto; apply Hnew; assumption
   | injection H as <-; exists fl0, []; cbn; rewrite app_nil_r; repeat split; auto; contradiction ]).
Qed.

Lemma NoDup_app_singleton {A} (l : list A) a : NoDup l -> ~ In a l -> NoDup (l ++ [a]).
Proof.
  induction 1 as [|x l Hx Hnd IH]; intro Ha; cbn; [constructor; [intros []|constructor]|].
  constructor.
  - intro Hin. apply in_app_or in Hin. destruct Hin as [Hin|[<-|[]]]; [contradiction|]. apply Ha. left; reflexivity.
  - apply IH. intro Hin. apply Ha. right; exact Hin.
Qed.

Lemma upd_flows_comps m fl : m_comps (upd_flows m fl) = m_comps m. Proof. reflexivity. Qed.
Lemma upd_flows_strats m fl : m_strats (upd_flows m fl) = m_strats m. Proof. reflexivity. Qed.

Record wf (m : model) : Prop := {
  wf_nodup_keys : forall c, In c (m_comps m) -> NoDup (keys_of c);
  wf_known_keys : forall c k, In c (m_comps m) -> In k (keys_of c) -> In k (strat_names m);
  wf_flows : forall f, In f (m_flows m) -> flow_ok (m_comps m) f
}.

Lemma wf_new t0 t1 h comps inf m : new_model t0 t1 h comps inf = Ok m -> wf m.
Proof.
  unfold new_model, bind. intro H. inv_guard H. injection H as <-. split; cbn.
  - intros c Hc. apply in_map_iff in Hc. destruct Hc as [n [<- _]]. constructor.
  - intros c k Hc Hk. apply in_map_iff in Hc. destruct Hc as [n [<- _]]. destruct Hk.
  - intros f [].
Qed.

Lemma wf_stratify m s0 m' : wf m -> stratify_with m s0 = Ok m' -> wf m'.
Proof.
  intros [W1 W2 W3] H.
  destruct (stratify_with_inv _ _ _ H) as [Ec [Es [Hfresh _]]].
  destruct (stratify_with_flows _ _ _ H) as [fl0 [extra [Ecol [Efl Hextra]]]].
  set (s := normalise_strat s0) in *.
  apply mem_str_false_notin in Hfresh.
  assert (Hfresh_c : forall c, In c (m_comps m) -> ~ In (s_name s) (keys_of c)).
  { intros c Hc Hk. apply Hfresh. apply (W2 c); assumption. }
  split.
  - intros c' Hc'. rewrite Ec in Hc'. apply in_stratify_comps in Hc'.
    destruct Hc' as [c [Hc [[_ [st [_ ->]]]|[_ ->]]]]; [|apply W1; exact Hc].
    rewrite stratify_comp_keys by (apply Hfresh_c; exact Hc).
    apply NoDup_app_singleton; [apply W1; exact Hc | apply Hfresh_c; exact Hc].
  - intros c' k Hc' Hk. unfold strat_names. rewrite Es, map_app. apply in_or_app.
    rewrite Ec in Hc'. apply in_stratify_comps in Hc'.
    destruct Hc' as [c [Hc [[_ [st [_ ->]]]|[_ ->]]]].
    + rewrite stratify_comp_keys in Hk by (apply Hfresh_c; exact Hc). apply in_app_or in Hk.
      destruct Hk as [Hk|[<-|[]]]; [left; apply (W2 c); assumption | right; left; reflexivity].
    + left. apply (W2 c); assumption.
  - intros f Hf. rewrite Efl in Hf. rewrite Ec. apply in_app_or in Hf. destruct Hf as [Hf|Hf]; [|apply Hextra; exact Hf].
    destruct (collect_in _ _ _ _ Ecol Hf) as [f0 [rb [Hf0 [Es0 Hfrb]]]].
    destruct (W3 f0 Hf0) as [He Hs]. apply (stratify_flow_ends s (m_comps m) f0 rb He Hs Es0 f Hfrb).
Qed.

Lemma wf_same m m' :
  wf m -> m_comps m' = m_comps m -> m_strats m' = m_strats m -> m_flows m' = m_flows m -> wf m'.
Proof.
  intros [W1 W2 W3] Ec Es Ef. split.
  - intros c Hc. rewrite Ec in Hc. auto.
  - intros c k Hc Hk. rewrite Ec in Hc. unfold strat_names. rewrite Es. apply (W2 c); assumption.
  - intros f Hf. rewrite Ef in Hf. rewrite Ec. auto.
Qed.

Lemma wf_add_flows m new :
  wf m -> (forall f, In f new -> flow_ok (m_comps m) f) -> wf (upd_flows m (m_flows m ++ new)).
Proof.
  intros [W1 W2 W3] Hn. split; cbn; auto.
  intros f Hf. apply in_app_or in Hf. destruct Hf; auto.
Qed.

Lemma add_universal_death_new m name param m' :
  add_universal_death m name param = Ok m' ->
  exists new, m' = upd_flows m (m_flows m ++ new) /\ forall f, In f new -> flow_ok (m_comps m) f.
Proof.
  unfold add_universal_death, bind. intro H. inv_guard H. clear Heqb.
  remember (m_orig m) as l eqn:El. clear El. revert m H. induction l as [|cn l IH]; intros m1 H; cbn [fold_left] in H.
  - injection H as <-. exists []. split; [rewrite app_nil_r; destruct m1; reflexivity | intros f []].
  - destruct (add_exit_flow m1 name param cn [] None) as [m1'|w] eqn:E.
    + unfold add_exit_flow, not_finalized, check_count, bind in E. inv_guard E. injection E as <-.
      destruct (IH _ H) as [new2 [-> Hn2]]. eexists. cbn. rewrite <- app_assoc. split; [reflexivity|].
      intros f Hf. apply in_app_or in Hf. destruct Hf as [Hf|Hf]; [|apply Hn2; exact Hf].
      apply in_map_iff in Hf. destruct Hf as [c [<- Hc]]. apply filter_In in Hc.
      split; [intros c' [E'|E']; cbn in E'; try discriminate; injection E' as <-; apply Hc
             | split; cbn; [discriminate | reflexivity]].
    + exfalso. clear -H. induction l as [|a l IHl]; cbn in H; [discriminate|auto].
Qed.

(* every operation of the build API preserves well-formedness *)
Theorem wf_apply_op m o m' : wf m -> apply_op m o = Ok m' -> wf m'.
Proof.
  intros W H. destruct o; cbn [apply_op] in H.
  - unfold set_initial_population, not_finalized, bind in H. inv_guard H. injection H as <-.
    apply (wf_same m); auto.
  - unfold init_population_with_graphobject, not_finalized, bind in H. inv_guard H. injection H as <-.
    apply (wf_same m); auto.
  - destruct (add_flow_new _ _ _ H) as [new [-> Hn]]. apply wf_add_flows; assumption.
  - destruct (add_universal_death_new _ _ _ _ H) as [new [-> Hn]]. apply wf_add_flows; assumption.
  - eapply wf_stratify; eassumption.
  - unfold adjust_population_split, not_finalized, bind in H. inv_guard H.
    destruct (find _ (m_strats m)); [|discriminate]. inv_guard H. injection H as <-. apply (wf_same m); auto.
  - unfold request_output, not_finalized, bind in H. inv_guard H.
    destruct r; inv_guard H; injection H as <-; apply (wf_same m); auto.
  - injection H as <-. apply (wf_same m); auto.
  - unfold add_computed_value, bind in H. inv_guard H. injection H as <-. apply (wf_same m); auto.
  - unfold finalize, bind in H. inv_guard H. injection H as <-. apply (wf_same m); auto.
  - injection H as <-. apply (wf_same m); auto.
  - unfold add_flow_dyn, bind in H.
    assert (exists fs', add_flow m fs' = Ok m') as [fs' H'].
    { destruct (fs_kind fs); try (destruct (validate_flowparam v); [|discriminate]); eexists; exact H. }
    clear H. rename H' into H. destruct (add_flow_new _ _ _ H) as [new [-> Hn]]. apply wf_add_flows; assumption.
  - unfold add_universal_death_dyn, bind in H. destruct (validate_flowparam v) as [param|]; [|discriminate]. destruct (add_universal_death_new _ _ _ _ H) as [new [-> Hn]]. apply wf_add_flows; assumption.
Qed.

Lemma wf_apply_ops ops : forall m k m', wf m -> apply_ops m ops k = (m', None) -> wf m'.
Proof.
  induction ops as [|o ops IH]; intros m k m' W H; cbn in H.
  - injection H as <-. exact W.
  - destruct (apply_op m o) as [m1|w] eqn:E; [|discriminate].
    apply (IH m1 (S k) m'); [eapply wf_apply_op; eassumption | exact H].
Qed.

(* C12: every model that the build API produces is well formed *)
Theorem wf_build t0 t1 h comps inf ops m : build_ok t0 t1 h comps inf ops = Some m -> wf m.
Proof.
  unfold build_ok, build. destruct (new_model t0 t1 h comps inf) as [m0|] eqn:E0; [|discriminate].
  destruct (apply_ops m0 ops 1) as [m1 e] eqn:E1. destruct e; [discriminate|]. intro H. injection H as <-.
  eapply wf_apply_ops; [eapply wf_new; eassumption | eassumption].
Qed.

(* ------------------------------------------------------------ distinct compartments (C12) *)
Lemma strata_eqb_spec a b : strata_eqb a b = true <-> a = b.
Proof.
  revert b; induction a as [|x a IH]; intros [|y b]; cbn; split; try discriminate; auto.
  - rewrite andb_true_iff, pair_eqb_spec, IH. intros [-> ->]; reflexivity.
  - intro E; injection E as -> ->. rewrite andb_true_iff, pair_eqb_spec, IH. auto.
Qed.

Lemma comp_eqb_spec a b : comp_eqb a b = true <-> a = b.
Proof.
  unfold comp_eqb. rewrite andb_true_iff, String.eqb_eq, strata_eqb_spec. destruct a, b; cbn.
  split; [intros [-> ->]; reflexivity | intro E; injection E; auto].
Qed.

Lemma stratify_comp_inj c c' sname st st' :
  ~ In sname (keys_of c) -> ~ In sname (keys_of c') ->
  stratify_comp c sname st = stratify_comp c' sname st' -> c = c' /\ st = st'.
Proof.
  intros H H' E. unfold stratify_comp in E. injection E as En Es.
  rewrite !strata_set_fresh in Es by assumption. apply app_inj_tail in Es. destruct Es as [Es Ep].
  injection Ep as ->. destruct c, c'; cbn in *; subst; auto.
Qed.

Lemma NoDup_app_intro {A} (l1 l2 : list A) :
  NoDup l1 -> NoDup l2 -> (forall a, In a l1 -> In a l2 -> False) -> NoDup (l1 ++ l2).
Proof.
  induction 1 as [|x l1 Hx Hnd IH]; intros H2 Hd; cbn; [exact H2|].
  constructor.
  - intro Hin. apply in_app_or in Hin. destruct Hin as [Hin|Hin]; [contradiction|].
    apply (Hd x); [left; reflexivity|exact Hin].
  - apply IH; [exact H2|]. intros a Ha Ha2. apply (Hd a); [right; exact Ha|exact Ha2].
Qed.

Lemma NoDup_flat_map {A B} (g : A -> list B) l :
  NoDup l -> (forall a, In a l -> NoDup (g a)) ->
  (forall a a' b, In a l -> In a' l -> In b (g a) -> In b (g a') -> a = a') ->
  NoDup (flat_map g l).
Proof.
  induction 1 as [|x l Hx Hnd IH]; intros Hg Hdisj; cbn; [constructor|].
  apply NoDup_app_intro.
  - apply Hg. left; reflexivity.
  - apply IH; [intros; apply Hg; right; assumption|].
    intros a a' b Ha Ha'. apply Hdisj; right; assumption.
  - intros b Hb Hb'. apply in_flat_map in Hb'. destruct Hb' as [a' [Ha' Hba']].
    assert (x = a') by (apply (Hdisj x a' b); [left; reflexivity|right; assumption|assumption|assumption]).
    subst. contradiction.
Qed.

Lemma NoDup_map_inj {A B} (g : A -> B) l : (forall a a', In a l -> In a' l -> g a = g a' -> a = a') -> NoDup l -> NoDup (map g l).
Proof.
  intros Hinj. induction 1 as [|x l Hx Hnd IH]; cbn; constructor.
  - intro Hin. apply in_map_iff in Hin. destruct Hin as [a [E Ha]].
    assert (a = x) by (apply Hinj; [right; exact Ha|left; reflexivity|exact E]). subst. contradiction.
  - apply IH. intros a a' Ha Ha'. apply Hinj; right; assumption.
Qed.

(* a stratification with distinct strata keeps distinct compartments distinct, replacing each
   stratified compartment in place by its strata in declaration order *)
Theorem stratify_comps_nodup s cs :
  NoDup cs -> NoDup (s_strata s) -> (forall c, In c cs -> ~ In (s_name s) (keys_of c)) ->
  NoDup (stratify_comps s cs).
Proof.
  intros Hnd Hst Hfresh. unfold stratify_comps. apply NoDup_flat_map; [exact Hnd| |].
  - intros c Hc. destruct (has_name_in_list c (s_comps s)); [|constructor; [intros []|constructor]].
    apply NoDup_map_inj; [|exact Hst]. intros st st' _ _ E.
    apply (stratify_comp_inj c c (s_name s) st st') in E; [apply E| |]; apply Hfresh; exact Hc.
  - intros a a' b Ha Ha' Hb Hb'.
    destruct (has_name_in_list a (s_comps s)) eqn:Ea, (has_name_in_list a' (s_comps s)) eqn:Ea'.
    + apply in_map_iff in Hb, Hb'. destruct Hb as [st [<- _]], Hb' as [st' [E _]].
      symmetry in E. apply stratify_comp_inj in E; [apply E| |]; apply Hfresh; assumption.
    + apply in_map_iff in Hb. destruct Hb as [st [Eb _]]. destruct Hb' as [Eb'|[]]. exfalso.
      apply (Hfresh a' Ha'). rewrite Eb', <- Eb. rewrite stratify_comp_keys by (apply Hfresh; exact Ha).
      apply in_or_app. right; left; reflexivity.
    + apply in_map_iff in Hb'. destruct Hb' as [st [Eb' _]]. destruct Hb as [Eb|[]]. exfalso.
      apply (Hfresh a Ha). rewrite Eb, <- Eb'. rewrite stratify_comp_keys by (apply Hfresh; exact Ha').
      apply in_or_app. right; left; reflexivity.
    + destruct Hb as [<-|[]], Hb' as [<-|[]]. reflexivity.
Qed.

Theorem stratify_with_nodup m s0 m' :
  wf m -> NoDup (m_comps m) -> NoDup (s_strata (normalise_strat s0)) ->
  stratify_with m s0 = Ok m' -> NoDup (m_comps m').
Proof.
  intros W Hnd Hst H. destruct (stratify_with_inv _ _ _ H) as [Ec [_ [Hfresh _]]]. rewrite Ec.
  apply stratify_comps_nodup; [exact Hnd | exact Hst |].
  intros c Hc Hk. apply mem_str_false_notin in Hfresh. apply Hfresh. apply (wf_known_keys m W c); assumption.
Qed.

(* the index the runner computes for a flow endpoint is the position of that compartment *)
Theorem comp_index_correct cs c d : In c cs -> nth (Model.Rates.comp_index cs c) cs d = c.
Proof.
  intro Hin. unfold Model.Rates.comp_index, index_of.
  assert (G : forall k, exists i, index_of_from (comp_eqb c) cs k = Some (k + i) /\ nth i cs d = c).
  { induction cs as [|a cs IH]; [destruct Hin|]. intro k. cbn.
    destruct (comp_eqb c a) eqn:E.
    - apply comp_eqb_spec in E. subst. exists 0. rewrite Nat.add_0_r. auto.
    - destruct Hin as [->|Hin]; [rewrite (proj2 (comp_eqb_spec c c) eq_refl) in E; discriminate|].
      destruct (IH Hin (S k)) as [i [Ei Hn]]. exists (S i). rewrite Ei. split; [f_equal; lia | exact Hn]. }
  destruct (G 0) as [i [Ei Hn]]. rewrite Ei. exact Hn.
Qed.
