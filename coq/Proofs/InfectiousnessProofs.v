(* C05: the infectiousness of a compartment is the chain of the infectiousness adjustments that
   apply to it, in stratification order: Multiply scales the running value, Overwrite replaces it. *)
From Coq Require Import QArith List String Bool Arith Lia.
Import ListNotations.
From S2 Require Import Base.Num Base.Arr Model.Expr Model.Struct Model.Rates
     Proofs.ArrLemmas Proofs.NumLemmas.
Local Open Scope nat_scope.
Local Notation length := List.length.

Section Infectiousness.
Variable O : NumOps.
Notation F := (F O).
Variable p : env O.

(* one (stratum, adjustment) entry of add_infectiousness_adjustments(cname, ...) of stratification
   sname, seen from compartment c *)
Definition inf_step (c : comp) (sname cname : string) (v : F) (sa : string * option adj) : F :=
  match snd sa with
  | None => v
  | Some a =>
      if String.eqb cname (c_name c) && query_match c [(sname, fst sa)]
      then match a with
           | AOvr _ => eval O p (f0 O) [] (adj_expr a)
           | AMul _ => fmul O (eval O p (f0 O) [] (adj_expr a)) v
           end
      else v
  end.

Definition inf_spec (m : model) (c : comp) : F :=
  fold_left (fun v s => fold_left (fun v ce => fold_left (inf_step c (s_name s) (fst ce)) (snd ce) v) (s_iadj s) v)
            (m_strats m) (f1 O).

(* writing h(old value) at every target position *)
Lemma fold_set_targets (h : F -> F) d : forall targets acc i,
  NoDup targets -> Forall (fun j => j < length acc) targets -> i < length acc ->
  let acc' := fold_left (fun a j => set_nth a j (h (get_clamp d a j))) targets acc in
  length acc' = length acc /\
  nth i acc' d = if existsb (Nat.eqb i) targets then h (nth i acc d) else nth i acc d.
Proof.
  induction targets as [|j targets IH]; intros acc i Hnd Hlt Hi; cbn zeta; cbn [fold_left existsb]; [split; reflexivity|].
  inversion Hnd; subst. inversion Hlt; subst.
  assert (Hlt' : Forall (fun j0 => j0 < length (set_nth acc j (h (get_clamp d acc j)))) targets)
    by (eapply Forall_impl; [|eassumption]; intros; rewrite set_nth_length; assumption).
  destruct (IH (set_nth acc j (h (get_clamp d acc j))) i H2 Hlt' ltac:(rewrite set_nth_length; exact Hi)) as [L E].
  cbn zeta in L, E. rewrite set_nth_length in L. split; [exact L|]. rewrite E.
  rewrite get_clamp_lt by assumption.
  rewrite (nth_set_nth acc j i _ d).
  destruct (Nat.eqb i j) eqn:Eij; cbn [orb andb].
  - apply Nat.eqb_eq in Eij. subst j.
    assert (Hn : existsb (Nat.eqb i) targets = false).
    { apply not_true_is_false. intro Hc. apply existsb_exists in Hc. destruct Hc as [x [Hx Ex]].
      apply Nat.eqb_eq in Ex. subst x. contradiction. }
    rewrite Hn. destruct (Nat.ltb_spec i (length acc)); [reflexivity|lia].
  - reflexivity.
Qed.

Lemma existsb_find_indices_iff (q : comp -> bool) (cs : list comp) i dc :
  i < length cs -> existsb (Nat.eqb i) (find_indices q cs) = q (nth i cs dc).
Proof.
  intro Hi. destruct (q (nth i cs dc)) eqn:Eq.
  - apply existsb_exists. exists i. split; [|apply Nat.eqb_refl]. apply find_indices_spec.
    exists (nth i cs dc). split; [apply nth_error_nth'; exact Hi | exact Eq].
  - apply not_true_is_false. intro Hc. apply existsb_exists in Hc. destruct Hc as [x [Hx Ex]].
    apply Nat.eqb_eq in Ex. subst x. apply find_indices_spec in Hx. destruct Hx as [a [Ha Qa]].
    rewrite (nth_error_nth' cs dc Hi) in Ha. injection Ha as <-. congruence.
Qed.

Definition dcomp : comp := {| c_name := EmptyString; c_strata := [] |}.

(* one apply_iadj entry list, pointwise *)
Lemma apply_iadj_spec (m : model) sname (ce : string * list (string * option adj)) : forall inf i,
  length inf = length (m_comps m) -> i < length (m_comps m) ->
  length (apply_iadj O m p sname inf ce) = length inf /\
  nth i (apply_iadj O m p sname inf ce) (f0 O)
  = fold_left (inf_step (nth i (m_comps m) dcomp) sname (fst ce)) (snd ce) (nth i inf (f0 O)).
Proof.
  unfold apply_iadj. induction (snd ce) as [|sa l IH]; intros inf i HL Hi; cbn [fold_left]; [split; reflexivity|].
  set (step := match snd sa with None => inf | Some a => _ end).
  assert (Hstep : length step = length inf /\
                  nth i step (f0 O) = inf_step (nth i (m_comps m) dcomp) sname (fst ce) (nth i inf (f0 O)) sa).
  { unfold step, inf_step. destruct (snd sa) as [a|]; [|split; reflexivity].
    set (tg := find_indices _ (m_comps m)).
    assert (Hnd : NoDup tg) by apply find_indices_nodup.
    assert (Hlt : Forall (fun j => j < length inf) tg)
      by (apply Forall_forall; intros j Hj; rewrite HL; eapply find_indices_lt; exact Hj).
    destruct a as [e|e].
    - pose proof (fold_set_targets (fun old => fmul O (eval O p (f0 O) [] e) old) (f0 O) tg inf i Hnd Hlt
                    ltac:(rewrite HL; exact Hi)) as [L E]. cbn zeta in L, E. cbn [adj_expr].
      split; [exact L|]. rewrite E. unfold tg. rewrite (existsb_find_indices_iff _ _ i dcomp Hi). reflexivity.
    - pose proof (fold_set_targets (fun _ => eval O p (f0 O) [] e) (f0 O) tg inf i Hnd Hlt
                    ltac:(rewrite HL; exact Hi)) as [L E]. cbn zeta in L, E. cbn [adj_expr].
      split; [exact L|]. rewrite E. unfold tg. rewrite (existsb_find_indices_iff _ _ i dcomp Hi). reflexivity. }
  destruct Hstep as [Ls Es].
  destruct (IH step i ltac:(congruence) Hi) as [L E]. split; [congruence|]. rewrite E, Es. reflexivity.
Qed.

(* ----- compartment by compartment, the infectiousness vector is the chain of applicable adjustments ----- *)
Theorem compartment_infectiousness_spec (m : model) i :
  i < length (m_comps m) ->
  nth i (compartment_infectiousness O m p) (f0 O) = inf_spec m (nth i (m_comps m) dcomp).
Proof.
  intro Hi. unfold compartment_infectiousness, inf_spec, ones.
  assert (G : forall strats inf v, length inf = length (m_comps m) -> nth i inf (f0 O) = v ->
     nth i (fold_left (fun inf s => fold_left (apply_iadj O m p (s_name s)) (s_iadj s) inf) strats inf) (f0 O)
     = fold_left (fun v s => fold_left (fun v ce => fold_left (inf_step (nth i (m_comps m) dcomp) (s_name s) (fst ce)) (snd ce) v)
                                       (s_iadj s) v) strats v
     /\ length (fold_left (fun inf s => fold_left (apply_iadj O m p (s_name s)) (s_iadj s) inf) strats inf) = length (m_comps m)).
  { induction strats as [|s strats IHs]; intros inf v HL Hv; cbn [fold_left]; [split; assumption|].
    assert (Gi : forall ces inf v, length inf = length (m_comps m) -> nth i inf (f0 O) = v ->
       nth i (fold_left (apply_iadj O m p (s_name s)) ces inf) (f0 O)
       = fold_left (fun v ce => fold_left (inf_step (nth i (m_comps m) dcomp) (s_name s) (fst ce)) (snd ce) v) ces v
       /\ length (fold_left (apply_iadj O m p (s_name s)) ces inf) = length (m_comps m)).
    { induction ces as [|ce ces IHc]; intros inf' v' HL' Hv'; cbn [fold_left]; [split; assumption|].
      destruct (apply_iadj_spec m (s_name s) ce inf' i HL' Hi) as [L E].
      apply IHc; [congruence | rewrite E, Hv'; reflexivity]. }
    destruct (Gi (s_iadj s) inf v HL Hv) as [E L]. apply IHs; assumption. }
  destruct (G (m_strats m) (repeat (f1 O) (length (m_comps m))) (f1 O)) as [E _].
  - apply repeat_length.
  - clear -Hi. revert i Hi. induction (length (m_comps m)) as [|k IH]; intros i Hi; [lia|]. destruct i; cbn; [reflexivity|]. apply IH. lia.
  - exact E.
Qed.

End Infectiousness.
