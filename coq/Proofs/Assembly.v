(* C03, assembly: from flow-by-flow aggregation to compartment-by-compartment aggregation.
   If the flows of a stratified model are the copies of the flows of the unstratified one (plus flows that stay
   inside one group of copies, such as ageing flows), every copy keeps its ends inside the groups of its parent's
   ends, and the copies' rates add up to the parent's rate, then the net rates of the copies of a compartment add
   up to the net rate of that compartment. *)
From Coq Require Import QArith Field Ring List String Bool Arith Lia.
Import ListNotations.
From S2 Require Import Base.Num Base.Arr Model.Expr Model.Struct
     Proofs.ArrLemmas Proofs.NumLemmas Proofs.BuildProofs Proofs.RatesProofs Proofs.InvarianceProofs.
Local Open Scope nat_scope.
Local Notation length := List.length.

Section Assembly.
Variable O : NumOps.
Variable T : NumTheory O.
Notation F := (F O).
Add Field Fas : (Fth O T).
Notation "0" := (f0 O).

Definition in_group (G : list comp) (c : comp) : bool := existsb (comp_eqb c) G.

(* an end of a copy lies in the group of the corresponding end of its parent (entry / exit flows keep their missing end) *)
Definition end_in (G : comp -> list comp) (parent copy : option comp) : Prop :=
  match parent, copy with
  | Some d, Some d' => In d' (G d)
  | None, None => True
  | _, _ => False
  end.

Definition ind_end (e : option comp) (c' : comp) (v : F) : F :=
  match e with Some d => if comp_eqb d c' then v else 0 | None => 0 end.

Lemma in_group_spec G c : in_group G c = true <-> In c G.
Proof.
  unfold in_group. rewrite existsb_exists. split.
  - intros [c' [Hin He]]. apply comp_eqb_spec in He. subst. exact Hin.
  - intro H. exists c. split; [exact H | apply comp_eqb_spec; reflexivity].
Qed.

(* summing an indicator over a duplicate-free group *)
Lemma sum_ind_group (G : list comp) (e : option comp) (v : F) :
  NoDup G ->
  fsum O (map (fun c' => ind_end e c' v) G) = match e with Some d => if in_group G d then v else 0 | None => 0 end.
Proof.
  intro Hnd. destruct e as [d|]; cbn [ind_end]; [|apply (fsum_map_zero O T)].
  induction Hnd as [|c G Hc Hnd IH]; cbn [map in_group existsb]; [reflexivity|].
  rewrite (fsum_cons O), IH. fold (in_group G d).
  destruct (comp_eqb d c) eqn:E.
  - apply comp_eqb_spec in E. subst c.
    destruct (in_group G d) eqn:E2; [apply in_group_spec in E2; contradiction|]. cbn. ring.
  - cbn. ring.
Qed.

Variables (cs : list comp) (fl extra : list flow) (copies : flow -> list flow) (G : comp -> list comp) (rate rate' : flow -> F).

Hypothesis H_ends : forall f c, In f fl -> (f_src f = Some c \/ f_dst f = Some c) -> In c cs.

Hypothesis H_dst : forall f g, In f fl -> In g (copies f) -> end_in G (f_dst f) (f_dst g).
Hypothesis H_src : forall f g, In f fl -> In g (copies f) -> end_in G (f_src f) (f_src g).
Hypothesis H_disjoint : forall c1 c2 c', In c1 cs -> In c2 cs -> In c' (G c1) -> In c' (G c2) -> c1 = c2.
Hypothesis H_nodup : forall c, In c cs -> NoDup (G c).
Hypothesis H_rate : forall f, In f fl -> fsum O (map rate' (copies f)) = rate f.
Hypothesis H_extra : forall g, In g extra -> exists c0 s d, In c0 cs /\ f_src g = Some s /\ f_dst g = Some d /\ In s (G c0) /\ In d (G c0).

Let fl' := flat_map copies fl ++ extra.

Lemma copy_end_indicator (g : flow) c (pe ce : option comp) :
  In c cs -> (forall d, pe = Some d -> In d cs) -> end_in G pe ce ->
  (match ce with Some d' => if in_group (G c) d' then rate' g else 0 | None => 0 end)
  = (match pe with Some d => if comp_eqb d c then rate' g else 0 | None => 0 end).
Proof.
  intros Hc Hpe. unfold end_in. destruct pe as [d|], ce as [d'|]; try contradiction; [|reflexivity].
  intro Hin. destruct (comp_eqb d c) eqn:E.
  - apply comp_eqb_spec in E. subst d.
    assert (E2 : in_group (G c) d' = true) by (apply in_group_spec; exact Hin). rewrite E2. reflexivity.
  - destruct (in_group (G c) d') eqn:E2; [|reflexivity].
    apply in_group_spec in E2. rewrite (H_disjoint d c d' (Hpe d eq_refl) Hc Hin E2) in E.
    assert (comp_eqb c c = true) by (apply comp_eqb_spec; reflexivity). congruence.
Qed.

(* one side (inflows or outflows) of the group sum *)
Lemma side_sum (side : flow -> option comp) (c : comp) :
  In c cs -> (forall f d, In f fl -> side f = Some d -> In d cs) ->
  (forall f g, In f fl -> In g (copies f) -> end_in G (side f) (side g)) ->
  fsum O (map (fun c' => fsum O (map (fun g => ind_end (side g) c' (rate' g)) (flat_map copies fl))) (G c))
  = fsum O (map (fun f => ind_end (side f) c (rate f)) fl).
Proof.
  intros Hc Hin_cs Hside.
  rewrite (fsum_swap O T (fun c' g => ind_end (side g) c' (rate' g)) (G c) (flat_map copies fl)).
  rewrite (fsum_map_ext O _ (fun g => match side g with Some d' => if in_group (G c) d' then rate' g else 0 | None => 0 end))
    by (intros g _; apply sum_ind_group; apply H_nodup; exact Hc).
  rewrite (fsum_flat_map O T).
  apply (fsum_map_ext O). intros f Hf.
  rewrite (fsum_map_ext O _ (fun g => match side f with Some d => if comp_eqb d c then rate' g else 0 | None => 0 end))
    by (intros g Hg; apply (copy_end_indicator g c); [exact Hc | intros d Hd; apply (Hin_cs f d Hf Hd) | apply Hside; assumption]).
  unfold ind_end. destruct (side f) as [d|]; [|apply (fsum_map_zero O T)].
  destruct (comp_eqb d c); [apply H_rate; exact Hf | apply (fsum_map_zero O T)].
Qed.

(* flows that stay inside one group add nothing to the group's total *)
Lemma extra_cancels (c : comp) : In c cs ->
  fsum O (map (fun c' => fsum O (map (fun g => ind_end (f_dst g) c' (rate' g)) extra)) (G c))
  = fsum O (map (fun c' => fsum O (map (fun g => ind_end (f_src g) c' (rate' g)) extra)) (G c)).
Proof.
  intro Hc.
  rewrite !(fsum_swap O T _ (G c) extra). apply (fsum_map_ext O). intros g Hg.
  rewrite !(sum_ind_group (G c) _ (rate' g) (H_nodup c Hc)).
  destruct (H_extra g Hg) as (c0 & s & d & Hc0 & -> & -> & Hs & Hd).
  assert (E : in_group (G c) d = in_group (G c) s).
  { destruct (in_group (G c) d) eqn:E1, (in_group (G c) s) eqn:E2; try reflexivity.
    - apply in_group_spec in E1. rewrite (H_disjoint c0 c d Hc0 Hc Hd E1) in Hs. apply in_group_spec in Hs. congruence.
    - apply in_group_spec in E2. rewrite (H_disjoint c0 c s Hc0 Hc Hs E2) in Hd. apply in_group_spec in Hd. congruence. }
  rewrite E. reflexivity.
Qed.

Lemma net_rate_unfold (r : flow -> F) (l : list flow) (c : comp) :
  net_rate O r l c = fsub O (fsum O (map (fun f => ind_end (f_dst f) c (r f)) l)) (fsum O (map (fun f => ind_end (f_src f) c (r f)) l)).
Proof. reflexivity. Qed.

Theorem aggregate_net_rates (c : comp) : In c cs ->
  fsum O (map (fun c' => net_rate O rate' fl' c') (G c)) = net_rate O rate fl c.
Proof.
  intro Hc.
  rewrite (fsum_map_ext O _ (fun c' => fsub O
             (fadd O (fsum O (map (fun g => ind_end (f_dst g) c' (rate' g)) (flat_map copies fl)))
                     (fsum O (map (fun g => ind_end (f_dst g) c' (rate' g)) extra)))
             (fadd O (fsum O (map (fun g => ind_end (f_src g) c' (rate' g)) (flat_map copies fl)))
                     (fsum O (map (fun g => ind_end (f_src g) c' (rate' g)) extra))))).
  2: { intros c' _. rewrite net_rate_unfold. unfold fl'. rewrite !map_app, !(fsum_app O T). reflexivity. }
  rewrite (fsum_map_sub O T), !(fsum_map_add O T).
  rewrite (side_sum f_dst c Hc (fun f d Hf Hd => H_ends f d Hf (or_intror Hd)) H_dst),
          (side_sum f_src c Hc (fun f d Hf Hd => H_ends f d Hf (or_introl Hd)) H_src), (extra_cancels c Hc), net_rate_unfold. ring.
Qed.

End Assembly.

(* ---------------------------------------------------------------- the real copies keep their ends in the groups *)
From S2 Require Import Proofs.CopiesProofs.

(* the group of copies of a compartment under a stratification *)
Definition group (s : strat) (c : comp) : list comp :=
  if has_name_in_list c (s_comps s) then map (stratify_comp c (s_name s)) (s_strata s) else [c].

Lemma stratify_comps_groups s cs : stratify_comps s cs = flat_map (group s) cs.
Proof. reflexivity. Qed.

Lemma opt_strat_in_group s (e : option comp) st :
  In st (s_strata s) -> end_in (group s) e (opt_strat e (s_name s) st (opt_in_list e (s_comps s))).
Proof.
  intro Hst. destruct e as [d|]; cbn [opt_strat opt_in_list end_in]; [|exact I].
  unfold group. destruct (has_name_in_list d (s_comps s)); [apply in_map; exact Hst | left; reflexivity].
Qed.

Lemma copy_strata_incl s f st : In st (copy_strata s f) -> In st (s_strata s).
Proof.
  unfold copy_strata. destruct (is_entry (f_kind f) && is_birth (f_kind f) && is_age (s_kind s)); [|auto].
  intro H. apply filter_In in H. tauto.
Qed.

Theorem copies_ends_in_groups s f fl g :
  flow_shape f -> stratify_flow s f = Ok fl -> In g fl ->
  end_in (group s) (f_dst f) (f_dst g) /\ end_in (group s) (f_src f) (f_src g).
Proof.
  intros [Hse Hsx] H Hg. pose proof (copies_exact s f fl H) as E.
  destruct (affected s f) eqn:Ea.
  - assert (Hsig : In (flow_sig g) (map (copy_ends s f) (copy_strata s f))) by (rewrite <- E; apply in_map; exact Hg).
    apply in_map_iff in Hsig. destruct Hsig as [st [Hst Hin]].
    unfold copy_ends, flow_sig in Hst. injection Hst as _ _ Hs Hd _.
    rewrite <- Hs, <- Hd. split; apply opt_strat_in_group; apply (copy_strata_incl s f); exact Hin.
  - subst fl. destruct Hg as [<-|[]].
    unfold affected in Ea.
    assert (K : forall e, opt_in_list e (s_comps s) = false -> end_in (group s) e e).
    { intros [d|] He; cbn [end_in opt_in_list] in *; [|exact I]. unfold group. rewrite He. left; reflexivity. }
    destruct (is_entry (f_kind f)) eqn:Ke; [|destruct (is_exit (f_kind f)) eqn:Kx].
    + rewrite (Hse eq_refl). split; [apply K; exact Ea | exact I].
    + rewrite (Hsx eq_refl). split; [exact I | apply K; exact Ea].
    + apply orb_false_iff in Ea. destruct Ea. split; apply K; assumption.
Qed.

(* ---------------------------------------------------------------- the real stratification *)
Definition copies_of (s : strat) (f : flow) : list flow := match stratify_flow s f with Ok l => l | Err _ => [] end.

Lemma collect_flat_map {A B} (g : A -> result (list B)) l r :
  collect g l = Ok r -> r = flat_map (fun a => match g a with Ok x => x | Err _ => [] end) l.
Proof.
  revert r; induction l as [|a l IH]; intros r E; cbn in E.
  - injection E as <-. reflexivity.
  - unfold bind in E. destruct (g a) as [ra|] eqn:Ea; [|discriminate].
    destruct (collect g l) as [rl|] eqn:El; [|discriminate]. injection E as <-.
    cbn [flat_map]. rewrite Ea, (IH rl eq_refl). reflexivity.
Qed.

Lemma stratify_with_flows_plain m s0 m' :
  stratify_with m s0 = Ok m' -> is_age (s_kind (normalise_strat s0)) = false ->
  m_flows m' = flat_map (copies_of (normalise_strat s0)) (m_flows m).
Proof.
  unfold stratify_with, not_finalized. intros H Hage. cbn zeta in H.
  unfold bind at 1 in H. destruct (validate_strat_object s0); [|discriminate].
  inv_guard H.
  repeat match type of H with
         | context [match s_mix ?s with _ => _ end] => destruct (s_mix s) eqn:?; cbn [bind] in H; inv_guard H
         | context [if is_strain ?k then _ else _] => destruct (is_strain k) eqn:?; cbn [bind] in H; inv_guard H
         end;
  (unfold bind at 1 in H;
   match type of H with context [collect ?f ?l] => destruct (collect f l) as [fl0|] eqn:Ecol; [|discriminate] end;
   rewrite Hage in H; cbn [bind] in H; injection H as <-; cbn [m_flows];
   apply collect_flat_map in Ecol; exact Ecol).
Qed.

Section Concrete.
Variable O : NumOps.
Variable T : NumTheory O.

Lemma group_nodup s c : NoDup (s_strata s) -> ~ In (s_name s) (keys_of c) -> NoDup (group s c).
Proof.
  intros Hst Hfresh. unfold group. destruct (has_name_in_list c (s_comps s)); [|constructor; [intros []|constructor]].
  apply NoDup_map_inj; [|exact Hst]. intros st st' _ _ E.
  apply (stratify_comp_inj c c (s_name s) st st') in E; [apply E| |]; exact Hfresh.
Qed.

Lemma group_disjoint s (cs : list comp) a a' b :
  (forall c, In c cs -> ~ In (s_name s) (keys_of c)) ->
  In a cs -> In a' cs -> In b (group s a) -> In b (group s a') -> a = a'.
Proof.
  intros Hfresh Ha Ha' Hb Hb'. unfold group in Hb, Hb'.
  destruct (has_name_in_list a (s_comps s)) eqn:Ea, (has_name_in_list a' (s_comps s)) eqn:Ea'.
  - apply in_map_iff in Hb, Hb'. destruct Hb as [st [<- _]], Hb' as [st' [E _]].
    symmetry in E. apply stratify_comp_inj in E; [apply E| |]; apply Hfresh; assumption.
  - apply in_map_iff in Hb. destruct Hb as [st [Eb _]]. destruct Hb' as [Eb'|[]]. exfalso.
    apply (Hfresh a' Ha'). rewrite Eb', <- Eb. rewrite stratify_comp_keys by (apply Hfresh; exact Ha).
    apply in_or_app. right; left; reflexivity.
  - apply in_map_iff in Hb'. destruct Hb' as [st [Eb' _]]. destruct Hb as [Eb|[]]. exfalso.
    apply (Hfresh a Ha). rewrite Eb, <- Eb'. rewrite stratify_comp_keys by (apply Hfresh; exact Ha').
    apply in_or_app. right; left; reflexivity.
  - destruct Hb as [<-|[]], Hb' as [<-|[]]. reflexivity.
Qed.

(* Stratifying a well-formed model (ordinary, partial or strain stratification): whatever the per-flow rates are, if
   the rates of the copies of every flow add up to the rate of that flow, then the net rates of the copies of every
   compartment add up to the net rate of that compartment. *)
Theorem stratified_net_rates (m : model) (s0 : strat) (m' : model) (rate rate' : flow -> F O) :
  wf m -> NoDup (s_strata (normalise_strat s0)) ->
  stratify_with m s0 = Ok m' -> is_age (s_kind (normalise_strat s0)) = false ->
  (forall f, In f (m_flows m) -> fsum O (map rate' (copies_of (normalise_strat s0) f)) = rate f) ->
  forall c, In c (m_comps m) ->
    fsum O (map (fun c' => net_rate O rate' (m_flows m') c') (group (normalise_strat s0) c)) = net_rate O rate (m_flows m) c.
Proof.
  intros W Hst H Hage Hrate c Hc.
  set (s := normalise_strat s0) in *.
  destruct (stratify_with_inv _ _ _ H) as [_ [_ [Hfresh0 _]]]. fold s in Hfresh0.
  assert (Hfresh : forall c0, In c0 (m_comps m) -> ~ In (s_name s) (keys_of c0)).
  { intros c0 Hc0 Hin. apply (mem_str_false_notin _ _ Hfresh0). apply (wf_known_keys m W c0 _ Hc0 Hin). }
  rewrite (stratify_with_flows_plain m s0 m' H Hage). fold s.
  rewrite <- (app_nil_r (flat_map (copies_of s) (m_flows m))).
  apply (aggregate_net_rates O T (m_comps m) (m_flows m) [] (copies_of s) (group s) rate rate').
  - intros f c0 Hf Hend. apply (proj1 (wf_flows m W f Hf)). exact Hend.
  - intros f g Hf Hg. unfold copies_of in Hg. destruct (stratify_flow s f) as [l|] eqn:E; [|destruct Hg].
    apply (copies_ends_in_groups s f l g (proj2 (wf_flows m W f Hf)) E Hg).
  - intros f g Hf Hg. unfold copies_of in Hg. destruct (stratify_flow s f) as [l|] eqn:E; [|destruct Hg].
    apply (copies_ends_in_groups s f l g (proj2 (wf_flows m W f Hf)) E Hg).
  - intros c1 c2 c' H1 H2. apply (group_disjoint s (m_comps m)); assumption.
  - intros c0 Hin. apply group_nodup; [exact Hst | apply Hfresh; exact Hin].
  - exact Hrate.
  - intros g [].
  - exact Hc.
Qed.

End Concrete.
