(* C03 for every model without infection flows: transition, death, importation, absolute, crude-birth and
   replacement-birth flows with rates that do not read the state; every ordinary, partial or age stratification without
   flow adjustments; every state of the stratified model. *)
From Coq Require Import QArith Field Ring List String Bool Arith Lia.
Import ListNotations.
From S2 Require Import Base.Num Base.Arr Model.Expr Model.Struct Model.Rates Model.Program Spec.RatesSpec
     Proofs.ArrLemmas Proofs.NumLemmas Proofs.BuildProofs Proofs.RatesProofs Proofs.ConservationProofs Proofs.CopiesProofs
     Proofs.InvarianceProofs Proofs.TimeShift Proofs.Scaling Proofs.Assembly Proofs.SameKeys Proofs.AgeAssembly
     Proofs.AggregateRates Proofs.AggregateModel Proofs.AggregateTotals.
Local Open Scope nat_scope.
Local Notation length := List.length.

Definition is_death (f : flow) : bool := fkind_eqb (f_kind f) KDeath.

Lemma filter_copies_kind (P : fkind -> bool) s (fl : list flow) :
  (forall f, In f fl -> exists l, stratify_flow s f = Ok l) ->
  filter (fun g => P (f_kind g)) (flat_map (copies_of s) fl) = flat_map (copies_of s) (filter (fun f => P (f_kind f)) fl).
Proof.
  induction fl as [|f fl IH]; intro Hok; cbn [flat_map filter]; [reflexivity|].
  rewrite filter_app, IH by (intros f' Hf'; apply Hok; right; exact Hf').
  destruct (Hok f (or_introl eq_refl)) as [l El].
  assert (K : forall g, In g (copies_of s f) -> f_kind g = f_kind f).
  { intros g Hg. unfold copies_of in Hg. rewrite El in Hg. apply (copies_kind s f l g El Hg). }
  destruct (P (f_kind f)) eqn:E; cbn [flat_map].
  - f_equal. induction (copies_of s f) as [|g l' IHl]; cbn; [reflexivity|].
    rewrite (K g (or_introl eq_refl)), E. f_equal. apply IHl. intros g' Hg'. apply K. right; exact Hg'.
  - replace (filter (fun g => P (f_kind g)) (copies_of s f)) with (@nil flow); [reflexivity|].
    induction (copies_of s f) as [|g l' IHl]; cbn; [reflexivity|].
    rewrite (K g (or_introl eq_refl)), E. apply IHl. intros g' Hg'. apply K. right; exact Hg'.
Qed.

Section All.
Variable O : NumOps.
Variable T : NumTheory O.
Notation F := (F O).
Add Field Fall : (Fth O T).

(* the documented law of every non-infection flow (C01), as a function of the state *)
Definition ni_rate (p : env O) (t : F) (M : model) (x : list F) (f : flow) : F :=
  match f_kind f with
  | KTrans | KDeath => frac_rate O p t (m_comps M) x f
  | KCrude => fmul O (weight_spec O p t x f) (fsum O x)
  | KRepl => fmul O (weight_spec O p t x f) (total_deaths O M p t x)
  | KImport | KAbs => weight_spec O p t x f
  | KInfFreq | KInfDens => f0 O
  end.

Definition ni_flow (f : flow) : Prop :=
  (is_infection (f_kind f) = false)
  /\ ((f_kind f = KTrans \/ f_kind f = KDeath) -> exists c, f_src f = Some c)
  /\ forallb state_free (flow_exprs f) = true.

Variables (t0 t1 h : Q) (comps inf : list string) (ops : list op) (m : model) (s0 : strat) (m' : model).
Hypothesis Hb : build_ok t0 t1 h comps inf ops = Some m.
Hypothesis Hcs_nd : NoDup (m_comps m).
Hypothesis H : stratify_with m s0 = Ok m'.
Let s := normalise_strat s0.
Hypothesis Hst : NoDup (s_strata s).
Hypothesis Hne : s_strata s <> [].
Hypothesis Hns : is_strain (s_kind s) = false.
Hypothesis Hna : s_fadj s = [].
Hypothesis Hage0 : is_age (s_kind s) = true -> length (filter (fun st => String.eqb st "0") (s_strata s)) = 1.
Hypothesis Hfl : forall f, In f (m_flows m) -> ni_flow f.
Variables (p : env O) (t : F) (x' : list F).
Hypothesis Hlen : length x' = length (m_comps m').

Let cs := m_comps m.
Let xa := aggx O s cs x'.

Lemma comps' : m_comps m' = stratify_comps s cs.
Proof. destruct (stratify_with_inv _ _ _ H) as [Ec _]. exact Ec. Qed.

Lemma all_ok f : In f (m_flows m) -> exists l, stratify_flow s f = Ok l.
Proof.
  intro Hf. destruct (stratify_with_flows _ _ _ H) as (fl0 & extra & Ecol & _ & _).
  apply (collect_all_ok _ _ _ Ecol f Hf).
Qed.

Lemma flows_shape : exists extra, m_flows m' = flat_map (copies_of s) (m_flows m) ++ extra /\ forall g, In g extra -> f_kind g = KTrans.
Proof.
  pose proof (wf_build _ _ _ _ _ _ _ Hb) as W. pose proof (same_keys_build _ _ _ _ _ _ _ Hb) as SK.
  destruct (is_age (s_kind s)) eqn:Hage.
  - destruct (stratify_with_inv _ _ _ H) as [_ [_ [Hfresh0 _]]]. fold s in Hfresh0.
    assert (Hfresh : forall c0, In c0 (m_comps m) -> ~ In (s_name s) (keys_of c0)).
    { intros c0 Hc0 Hin. apply (mem_str_false_notin _ _ Hfresh0). apply (wf_known_keys m W c0 _ Hc0 Hin). }
    destruct (stratify_with_flows_age m s0 m' H Hage) as (m1 & m2 & Hc1 & Hf1 & Hfold & Hflm). fold s in Hc1, Hf1, Hfold.
    destruct (ageing_fold s (m_comps m) (wf_nodup_keys m W) Hfresh SK (ageing_specs s (m_comps m))
                (in_ageing_specs s (m_comps m)) m1 m2 Hc1 Hfold) as [extra [Hext Hin]].
    exists extra. rewrite Hflm, Hext, Hf1. split; [reflexivity|]. intros g Hg. apply (proj1 (Hin g Hg)).
  - exists []. rewrite app_nil_r. split; [apply (stratify_with_flows_plain m s0 m' H Hage) | intros g []].
Qed.

(* total death rate *)
Lemma deaths_aggregate : cs <> [] -> total_deaths O m' p t x' = total_deaths O m p t xa.
Proof.
  intro Hcs. pose proof (wf_build _ _ _ _ _ _ _ Hb) as W.
  unfold total_deaths. destruct flows_shape as [extra [-> Hex]].
  rewrite filter_app.
  replace (filter (fun f => fkind_eqb (f_kind f) KDeath) extra) with (@nil flow).
  2: { symmetry. induction extra as [|g l IH]; cbn; [reflexivity|]. rewrite (Hex g (or_introl eq_refl)). cbn.
       apply IH. intros g' Hg'. apply Hex. right; exact Hg'. }
  rewrite app_nil_r.
  rewrite (filter_copies_kind (fun k => fkind_eqb k KDeath) s (m_flows m) all_ok).
  rewrite (fsum_flat_map O T). apply (fsum_map_ext O). intros f Hf. apply filter_In in Hf. destruct Hf as [Hf Hk].
  destruct (all_ok f Hf) as [l El]. unfold copies_of. rewrite El.
  destruct (Hfl f Hf) as (_ & Hsrc & Hsf).
  assert (Kd : f_kind f = KDeath) by (destruct (f_kind f); cbn in Hk; try discriminate; reflexivity).
  destruct (Hsrc (or_intror Kd)) as [c0 Ec0].
  assert (Hn0 : length (s_strata s) <> 0) by (intro E; apply Hne; destruct (s_strata s); [reflexivity|discriminate]).
  rewrite (fsum_map_ext O _ (frac_rate O p t (stratify_comps s cs) x')) by (intros g _; unfold base_rate, frac_rate; rewrite comps'; reflexivity).
  apply (frac_copies_rate_sum O T p t s cs x' Hcs f (or_intror Kd)); try assumption.
  - exists c0. split; [exact Ec0 | apply (proj1 (wf_flows m W f Hf)); left; exact Ec0].
  - apply no_adjustments. exact Hna.
Qed.

Theorem noninfection_model_aggregates c : In c cs ->
  fsum O (map (fun c' => net_rate O (ni_rate p t m' x') (m_flows m') c') (group s c))
  = net_rate O (ni_rate p t m xa) (m_flows m) c.
Proof.
  intro Hc. pose proof (wf_build _ _ _ _ _ _ _ Hb) as W.
  assert (Hcs : cs <> []) by (intro E; unfold cs in *; rewrite E in Hc; destruct Hc).
  assert (Hn0 : length (s_strata s) <> 0) by (intro E; apply Hne; destruct (s_strata s); [reflexivity|discriminate]).
  assert (Hnd' : NoDup (stratify_comps s cs)) by (rewrite <- comps'; apply (stratify_with_nodup m s0 m' W Hcs_nd Hst H)).
  assert (Hlen' : length x' = length (stratify_comps s cs)) by (rewrite <- comps'; exact Hlen).
  apply (stratified_net_rates_built O T t0 t1 h comps inf ops m s0 m' _ _ Hb Hst H); [|exact Hc].
  intros f Hf. destruct (Hfl f Hf) as (Hni & Hsrc & Hsf).
  destruct (all_ok f Hf) as [fl Efl]. unfold copies_of. fold s. rewrite Efl.
  rewrite (fsum_map_ext O _ (fun g => match f_kind f with
                                       | KTrans | KDeath => frac_rate O p t (stratify_comps s cs) x' g
                                       | KCrude => fmul O (weight_spec O p t x' g) (fsum O x')
                                       | KRepl => fmul O (weight_spec O p t x' g) (total_deaths O m' p t x')
                                       | KImport | KAbs => weight_spec O p t x' g
                                       | _ => f0 O end))
    by (intros g Hg; unfold ni_rate; rewrite (copies_kind s f fl g Efl Hg), comps'; reflexivity).
  unfold ni_rate. fold cs.
  destruct (f_kind f) eqn:Ek; cbn in Hni; try discriminate.
  - (* crude births *)
    rewrite (fsum_map_ext O _ (fun g => fmul O (fsum O x') (weight_spec O p t x' g))) by (intros; ring).
    rewrite (fsum_map_scale O T (fsum O x') (weight_spec O p t x')).
    rewrite (birth_copies_weight_sum O T p t s x' xa f (or_introl Ek) Hsf (no_adjustments s f Hna) Hn0 Hage0 fl Efl).
    unfold xa. rewrite (total_aggregates O T s cs x' Hnd' Hlen'). ring.
  - (* replacement births *)
    rewrite (fsum_map_ext O _ (fun g => fmul O (total_deaths O m' p t x') (weight_spec O p t x' g))) by (intros; ring).
    rewrite (fsum_map_scale O T (total_deaths O m' p t x') (weight_spec O p t x')).
    rewrite (birth_copies_weight_sum O T p t s x' xa f (or_intror Ek) Hsf (no_adjustments s f Hna) Hn0 Hage0 fl Efl).
    rewrite (deaths_aggregate Hcs). ring.
  - (* importation *)
    apply (abs_copies_rate_sum O T p t s x' xa f (or_introl Ek) Hsf (no_adjustments s f Hna) Hn0 fl Efl).
  - (* deaths *)
    destruct (Hsrc (or_intror eq_refl)) as [c0 Ec0].
    apply (frac_copies_rate_sum O T p t s cs x' Hcs f (or_intror Ek)); try assumption.
    + exists c0. split; [exact Ec0 | apply (proj1 (wf_flows m W f Hf)); left; exact Ec0].
    + apply no_adjustments. exact Hna.
  - (* transitions *)
    destruct (Hsrc (or_introl eq_refl)) as [c0 Ec0].
    apply (frac_copies_rate_sum O T p t s cs x' Hcs f (or_introl Ek)); try assumption.
    + exists c0. split; [exact Ec0 | apply (proj1 (wf_flows m W f Hf)); left; exact Ec0].
    + apply no_adjustments. exact Hna.
  - (* absolute flows *)
    apply (abs_copies_rate_sum O T p t s x' xa f (or_intror Ek) Hsf (no_adjustments s f Hna) Hn0 fl Efl).
Qed.

End All.
