(* C16: the rolling-window helpers of functions/derived.py equal their pandas.Series counterparts:
   diff(periods) and rolling(window).agg(func), NaN where the window is incomplete. *)
From Coq Require Import List Arith Bool Lia.
Import ListNotations.
From S2 Require Import Base.Num Base.Arr Model.Rolling.
Local Open Scope nat_scope.

Section RollingProofs.
Variable O : NumOps.
Notation F := (F O).

Lemma set_from_length out : forall k vals, length (set_from O out k vals) = length out.
Proof.
  induction out as [|h t IH]; intros k vals; [reflexivity|].
  destruct k; cbn [set_from]; [destruct vals; cbn; [reflexivity | rewrite IH; reflexivity] | cbn; rewrite IH; reflexivity].
Qed.

Lemma set_upto_length out : forall k v, length (set_upto O out k v) = length out.
Proof. induction out as [|h t IH]; intros [|k] v; cbn; try reflexivity. rewrite IH. reflexivity. Qed.

Lemma nth_set_from out : forall k vals i d, i < length out ->
  nth i (set_from O out k vals) d =
  if (k <=? i) && (i <? k + length vals) then nth (i - k) vals d else nth i out d.
Proof.
  induction out as [|h t IH]; intros k vals i d Hi; cbn in Hi; [lia|].
  destruct k as [|k].
  - destruct vals as [|v vs]; cbn [set_from].
    + cbn [length]. rewrite Nat.add_0_r. destruct (0 <=? i); destruct (i <? 0) eqn:E; cbn; try reflexivity.
      apply Nat.ltb_lt in E. lia.
    + destruct i as [|i]; [reflexivity|]. cbn [nth]. rewrite IH by lia. cbn [length].
      replace (S i - 0) with (S (i - 0)) by lia. cbn [nth].
      destruct (Nat.ltb_spec i (0 + length vs)), (Nat.ltb_spec (S i) (0 + S (length vs))); cbn; try reflexivity; lia.
  - cbn [set_from]. destruct i as [|i]; [reflexivity|]. cbn [nth]. rewrite IH by lia.
    change (S k <=? S i) with (k <=? i). replace (S i <? S k + length vals) with (i <? k + length vals)
      by (destruct (Nat.ltb_spec i (k + length vals)), (Nat.ltb_spec (S i) (S k + length vals)); try reflexivity; lia).
    replace (S i - S k) with (i - k) by lia. reflexivity.
Qed.

Lemma nth_set_upto out : forall k v i d, i < length out ->
  nth i (set_upto O out k v) d = if i <? k then v else nth i out d.
Proof.
  induction out as [|h t IH]; intros k v i d Hi; cbn in Hi; [lia|].
  destruct k as [|k]; [reflexivity|]. cbn [set_upto]. destruct i as [|i]; [reflexivity|].
  cbn [nth]. rewrite IH by lia. reflexivity.
Qed.

Lemma nth_repeat_some n i (d : option F) : i < n -> nth i (repeat (Some (f0 O)) n) d = Some (f0 O).
Proof. revert i. induction n as [|n IH]; intros i Hi; [lia|]. destruct i; cbn; [reflexivity|]. apply IH. lia. Qed.

Lemma nth_zip_sub (a b : list F) i d : i < length a -> i < length b ->
  nth i (zip_with (fsub O) a b) d = fsub O (nth i a d) (nth i b d).
Proof.
  revert b i. induction a as [|x a IH]; intros [|y b] i Ha Hb; cbn in *; try lia.
  destruct i; [reflexivity|]. apply IH; lia.
Qed.

Lemma zip_with_length' {B C} (f : F -> B -> C) (a : list F) (b : list B) : length (zip_with f a b) = Nat.min (length a) (length b).
Proof. revert b. induction a as [|x a IH]; intros [|y b]; cbn; try reflexivity. rewrite IH. reflexivity. Qed.

Lemma nth_skipn' {A} (l : list A) : forall k i d, nth i (skipn k l) d = nth (k + i) l d.
Proof. induction l as [|h t IH]; intros [|k] i d; cbn; try reflexivity; [destruct i; reflexivity | apply IH]. Qed.

Lemma nth_firstn' {A} (l : list A) : forall k i d, nth i (firstn k l) d = if i <? k then nth i l d else d.
Proof.
  induction l as [|h t IH]; intros k i d.
  - rewrite firstn_nil. destruct i; destruct (_ <? k); reflexivity.
  - destruct k as [|k]; cbn [firstn].
    + destruct i; reflexivity.
    + destruct i as [|i]; [reflexivity|]. cbn [nth]. rewrite IH. reflexivity.
Qed.

(* pandas.Series.diff(periods): NaN for the first `periods` entries, then x[i] - x[i - periods] *)
Theorem rolling_diff_spec periods (x : list F) i d :
  1 <= periods -> i < length x ->
  nth i (rolling_diff O periods x) None = if i <? periods then None else Some (fsub O (nth i x d) (nth (i - periods) x d)).
Proof.
  intros Hp Hi. unfold rolling_diff.
  rewrite nth_set_upto by (rewrite set_from_length, repeat_length; exact Hi).
  destruct (Nat.ltb_spec i periods) as [Hlt|Hge]; [reflexivity|].
  rewrite nth_set_from by (rewrite repeat_length; exact Hi).
  rewrite map_length, zip_with_length', skipn_length, firstn_length.
  replace (Nat.min (length x - periods) (Nat.min (length x - periods) (length x))) with (length x - periods) by lia.
  assert (E1 : (periods <=? i) = true) by (apply Nat.leb_le; exact Hge).
  assert (E2 : (i <? periods + (length x - periods)) = true) by (apply Nat.ltb_lt; lia).
  rewrite E1, E2. cbn [andb].
  rewrite (nth_indep _ None (Some d)) by (rewrite map_length, zip_with_length', skipn_length, firstn_length; lia).
  rewrite map_nth. f_equal.
  rewrite nth_zip_sub by (rewrite ?skipn_length, ?firstn_length; lia).
  rewrite nth_skipn', nth_firstn'. replace (periods + (i - periods)) with i by lia.
  assert (E3 : (i - periods <? length x - periods) = true) by (apply Nat.ltb_lt; lia). rewrite E3. reflexivity.
Qed.

Lemma nth_repeat_none n i : nth i (repeat (@None F) n) None = None.
Proof. revert i. induction n as [|n IH]; intros [|i]; cbn; try reflexivity. apply IH. Qed.

(* pandas.Series.diff(-k), k >= 0: x[i] - x[i + k] while i + k is inside the series, NaN for the last k entries *)
Theorem rolling_diff_backward_spec periods (x : list F) i d :
  i < length x ->
  nth i (rolling_diff_backward O periods x) None
  = if i + periods <? length x then Some (fsub O (nth i x d) (nth (i + periods) x d)) else None.
Proof.
  intros Hi. unfold rolling_diff_backward. destruct periods as [|k].
  - rewrite Nat.add_0_r. assert (E : (i <? length x) = true) by (apply Nat.ltb_lt; exact Hi). rewrite E.
    rewrite (nth_indep _ None (Some d)) by (rewrite map_length, zip_with_length'; lia).
    rewrite map_nth. f_equal. apply nth_zip_sub; exact Hi.
  - set (p := S k). assert (Hp : 1 <= p) by (unfold p; lia). clearbody p.
    rewrite nth_set_from by (rewrite set_from_length, repeat_length; exact Hi).
    rewrite repeat_length.
    destruct (Nat.ltb_spec (i + p) (length x)) as [Hin|Hout].
    + assert (E1 : (length x - p <=? i) = false) by (apply Nat.leb_gt; lia). rewrite E1. cbn [andb].
      rewrite nth_set_from by (rewrite repeat_length; exact Hi).
      rewrite map_length, zip_with_length', skipn_length, firstn_length.
      replace (Nat.min (Nat.min (length x - p) (length x)) (length x - p)) with (length x - p) by lia.
      assert (E2 : (0 <=? i) = true) by reflexivity.
      assert (E3 : (i <? 0 + (length x - p)) = true) by (apply Nat.ltb_lt; lia).
      rewrite E2, E3. cbn [andb]. rewrite Nat.sub_0_r.
      rewrite (nth_indep _ None (Some d)) by (rewrite map_length, zip_with_length', skipn_length, firstn_length; lia).
      rewrite map_nth. f_equal.
      rewrite nth_zip_sub by (rewrite ?skipn_length, ?firstn_length; lia).
      rewrite nth_skipn', nth_firstn'.
      assert (E4 : (i <? length x - p) = true) by (apply Nat.ltb_lt; lia). rewrite E4.
      rewrite (Nat.add_comm p i). reflexivity.
    + assert (E1 : (length x - p <=? i) = true) by (apply Nat.leb_le; lia).
      assert (E2 : (i <? length x - p + length x) = true) by (apply Nat.ltb_lt; lia).
      rewrite E1, E2. cbn [andb]. apply nth_repeat_none.
Qed.

(* pandas.Series.rolling(window).agg(func): NaN for the first window - 1 entries, then func of the
   window ending at i *)
Theorem rolling_reduction_spec (func : list F -> F) window (x : list F) i :
  1 <= window -> i < length x ->
  nth i (rolling_reduction O func window x) None
  = if i <? window - 1 then None else Some (func (firstn window (skipn (i - (window - 1)) x))).
Proof.
  intros Hw Hi. unfold rolling_reduction, rolling_windows.
  rewrite nth_set_from by (rewrite set_upto_length, repeat_length; exact Hi).
  rewrite !map_length, seq_length.
  destruct (Nat.ltb_spec i (window - 1)) as [Hlt|Hge].
  - assert (E1 : (window - 1 <=? i) = false) by (apply Nat.leb_gt; exact Hlt). rewrite E1. cbn [andb].
    rewrite nth_set_upto by (rewrite repeat_length; exact Hi).
    assert (E2 : (i <? window) = true) by (apply Nat.ltb_lt; lia). rewrite E2. reflexivity.
  - assert (Hwl : window <= length x) by lia.
    assert (E0 : (window <=? length x) = true) by (apply Nat.leb_le; exact Hwl). rewrite E0.
    assert (E1 : (window - 1 <=? i) = true) by (apply Nat.leb_le; exact Hge).
    assert (E2 : (i <? window - 1 + (length x - window + 1)) = true) by (apply Nat.ltb_lt; lia).
    rewrite E1, E2. cbn [andb].
    set (ws := map (fun i0 : nat => firstn window (skipn i0 x)) (seq 0 (length x - window + 1))).
    assert (Lws : length ws = length x - window + 1) by (unfold ws; rewrite map_length, seq_length; reflexivity).
    rewrite (nth_indep (map Some (map func ws)) None (Some (func []))) by (rewrite !map_length, Lws; lia).
    rewrite map_nth. f_equal.
    rewrite (nth_indep (map func ws) (func []) (func (firstn window (skipn 0 x)))) by (rewrite map_length, Lws; lia).
    unfold ws. rewrite map_map. rewrite (map_nth (fun i0 => func (firstn window (skipn i0 x)))).
    rewrite seq_nth by lia. reflexivity.
Qed.

End RollingProofs.
