(* C02 (and C07) for the adaptive solver: in a closed system every Dormand-Prince step, every
   dense-output polynomial and therefore every output row of odeint keeps the total population -
   for every step-size controller, every accept / reject history and every bound on the steps. *)
From Coq Require Import QArith Field Ring List Bool Arith Lia.
Import ListNotations.
From S2 Require Import Base.Num Base.Arr Model.Solvers Model.Adaptive Gen.OdeGen
     Proofs.ArrLemmas Proofs.NumLemmas.
Local Open Scope nat_scope.
Local Notation length := List.length.

Section AdaptiveProofs.
Variable O : NumOps.
Variable T : NumTheory O.
Notation F := (F O).
Add Field Fad : (Fth O T).

Variable n : nat.
Variable f : rhs O.
Hypothesis f_length : forall t y, length y = n -> length (f t y) = n.
Hypothesis f_closed : forall t y, length y = n -> fsum O (f t y) = f0 O.

(* a stage row: right length, zero total *)
Definition row_ok (r : list F) : Prop := length r = n /\ fsum O r = f0 O.

Lemma zeros_ok : row_ok (repeat (f0 O) n).
Proof. split; [apply repeat_length | apply (fsum_repeat_zero O T)]. Qed.

Lemma lin_comb_ok cs ks : Forall row_ok ks ->
  length (lin_comb O n cs ks) = n /\ fsum O (lin_comb O n cs ks) = f0 O.
Proof.
  intro H. unfold lin_comb.
  assert (G : forall l acc, Forall (fun ck => row_ok (snd ck)) l -> row_ok acc ->
              row_ok (fold_left (fun acc ck => vadd O acc (vscale O (of_Q O (fst ck)) (snd ck))) l acc)).
  { induction l as [|[c k] l IH]; intros acc Hl Ha; [exact Ha|]. cbn [fold_left]. inversion Hl; subst.
    apply IH; [assumption|]. destruct Ha as [La Sa]. destruct H2 as [Lk Sk]. cbn [fst snd] in *. split.
    - rewrite (vadd_length O), (vscale_length O), La, Lk. apply Nat.min_id.
    - rewrite (fsum_vadd O T) by (rewrite (vscale_length O); congruence).
      rewrite (fsum_vscale O T), Sa, Sk. ring. }
  apply G; [|apply zeros_ok].
  clear G. revert ks H. induction cs as [|c cs IH]; intros ks H; [constructor|].
  destruct ks as [|k ks]; [constructor|]. inversion H; subst. cbn. constructor; [assumption | apply IH; assumption].
Qed.

Lemma set_nth_Forall {A} (P : A -> Prop) l i v : Forall P l -> P v -> Forall P (set_nth l i v).
Proof.
  revert i. induction l as [|h l IH]; intros i Hl Hv; [constructor|]. inversion Hl; subst.
  destruct i; cbn; constructor; auto.
Qed.

Section Step.
Variables (y0 k0 : list F) (t0 dt : F).
Hypothesis y0_len : length y0 = n.
Hypothesis k0_ok : row_ok k0.

Lemma rk_stages_ok : Forall row_ok (rk_stages O n f y0 k0 t0 dt).
Proof.
  unfold rk_stages.
  assert (G : forall idx k, Forall row_ok k -> Forall row_ok (fold_left (rk_stage O n f y0 t0 dt) idx k)).
  { induction idx as [|i idx IH]; intros k Hk; [exact Hk|]. cbn [fold_left]. apply IH.
    unfold rk_stage. apply set_nth_Forall; [exact Hk|].
    destruct (lin_comb_ok (nth (i - 1) dp_beta []) k Hk) as [L _].
    assert (Ly : length (vadd O y0 (vscale O dt (lin_comb O n (nth (i - 1) dp_beta []) k))) = n)
      by (rewrite (vadd_length O), (vscale_length O), L, y0_len; apply Nat.min_id).
    split; [apply f_length | apply f_closed]; exact Ly. }
  apply G. constructor; [exact k0_ok|]. apply Forall_forall. intros r Hr. apply repeat_spec in Hr. subst. apply zeros_ok.
Qed.

Lemma last_Forall_ne {A} (P : A -> Prop) l d : l <> [] -> Forall P l -> P (last l d).
Proof.
  induction l as [|h l IH]; intros Hne Hl; [congruence|]. inversion Hl; subst.
  destruct l as [|h' l']; [assumption|]. apply IH; [discriminate|assumption].
Qed.

Lemma rk_stages_length : length (rk_stages O n f y0 k0 t0 dt) = 7.
Proof.
  unfold rk_stages.
  assert (G : forall idx k, length (fold_left (rk_stage O n f y0 t0 dt) idx k) = length k).
  { induction idx as [|i idx IH]; intro k; [reflexivity|]. cbn [fold_left]. rewrite IH. unfold rk_stage. apply set_nth_length. }
  rewrite G. reflexivity.
Qed.

(* one Dormand-Prince step keeps the total; its error estimate and the new derivative have zero total *)
Theorem rk_step_conserves :
  let r := rk_step O n f y0 k0 t0 dt in
  length (rk_y1 O r) = n /\ fsum O (rk_y1 O r) = fsum O y0 /\ row_ok (rk_f1 O r)
  /\ fsum O (rk_err O r) = f0 O /\ Forall row_ok (rk_k O r).
Proof.
  cbn zeta. unfold rk_step. cbn [rk_y1 rk_f1 rk_err rk_k]. pose proof rk_stages_ok as Hk.
  destruct (lin_comb_ok dp_c_sol _ Hk) as [L1 S1]. destruct (lin_comb_ok dp_c_error _ Hk) as [L2 S2].
  split; [rewrite (vadd_length O), (vscale_length O), L1, y0_len; apply Nat.min_id|].
  split; [rewrite (fsum_vadd O T) by (rewrite (vscale_length O); congruence); rewrite (fsum_vscale O T), S1; ring|].
  split.
  - apply last_Forall_ne; [|exact Hk]. intro E. pose proof rk_stages_length as HL. rewrite E in HL. discriminate.
  - split; [rewrite (fsum_vscale O T), S2; ring | exact Hk].
Qed.

End Step.
(* ------------------------------------------------------------------ dense output *)
Definition coeff_ok (N : F) (c : coeffs O) : Prop :=
  let '(a, b, cc, d, e) := c in
  length a = n /\ length b = n /\ length cc = n /\ length d = n /\ length e = n /\
  fsum O a = f0 O /\ fsum O b = f0 O /\ fsum O cc = f0 O /\ fsum O d = f0 O /\ fsum O e = N.

(* the fit is linear in (y0, y1, y_mid, dy0, dy1): lengths and totals of the coefficient vectors *)
Lemma fit_vectors_spec dt : forall (y0 y1 ym dy0 dy1 : list F) k,
  length y0 = k -> length y1 = k -> length ym = k -> length dy0 = k -> length dy1 = k ->
  let '(a, b, c, d, e) := fit_vectors O y0 y1 ym dy0 dy1 dt in
  length a = k /\ length b = k /\ length c = k /\ length d = k /\ length e = k /\
  (fsum O a, fsum O b, fsum O c, fsum O d, fsum O e)
  = gen_fit_4th_order_polynomial O (fsum O y0) (fsum O y1) (fsum O ym) (fsum O dy0) (fsum O dy1) dt.
Proof.
  induction y0 as [|a0 y0 IH]; intros y1 ym dy0 dy1 k H0 H1 Hm Hd0 Hd1;
    destruct y1 as [|a1 y1], ym as [|am ym], dy0 as [|d0 dy0], dy1 as [|d1 dy1]; cbn in *; subst k; try discriminate.
  - repeat split; try reflexivity. unfold gen_fit_4th_order_polynomial. rewrite ?(fsum_nil O).
    repeat match goal with |- (_, _) = (_, _) => apply (f_equal2 pair) end; ring.
  - specialize (IH y1 ym dy0 dy1 (length y0) eq_refl ltac:(lia) ltac:(lia) ltac:(lia) ltac:(lia)).
    cbn [fit_vectors]. unfold gen_fit_4th_order_polynomial in *.
    destruct (fit_vectors O y0 y1 ym dy0 dy1 dt) as [[[[la lb] lc] ld] le].
    destruct IH as (La & Lb & Lc & Ld & Le & E). injection E as Ea Eb Ec Ed Ee.
    cbn [length]. repeat split; try congruence.
    rewrite !(fsum_cons O), Ea, Eb, Ec, Ed, Ee. repeat match goal with |- context [fold_right (fadd O) (f0 O) ?l] => change (fold_right (fadd O) (f0 O) l) with (fsum O l) end.
    repeat match goal with |- (_, _) = (_, _) => apply (f_equal2 pair) end; ring.
Qed.

Lemma of_Q_sum a b c : (a + b == c)%Q -> fadd O (of_Q O a) (of_Q O b) = of_Q O c.
Proof. intro H. rewrite <- (of_Q_add O T). apply (of_Q_eq O T). exact H. Qed.

Lemma interp_fit_ok (y0 y1 : list F) (k : list (list F)) dt :
  length y0 = n -> length y1 = n -> fsum O y1 = fsum O y0 -> Forall row_ok k -> k <> [] ->
  coeff_ok (fsum O y0) (interp_fit O n y0 y1 k dt).
Proof.
  intros L0 L1 S1 Hk Hne. unfold interp_fit.
  destruct (lin_comb_ok dp_c_mid k Hk) as [Lm Sm].
  set (ym := vadd O y0 (vscale O dt (lin_comb O n dp_c_mid k))).
  assert (Lym : length ym = n) by (unfold ym; rewrite (vadd_length O), (vscale_length O), Lm, L0; apply Nat.min_id).
  assert (Sym : fsum O ym = fsum O y0)
    by (unfold ym; rewrite (fsum_vadd O T) by (rewrite (vscale_length O); congruence); rewrite (fsum_vscale O T), Sm; ring).
  assert (Hd0 : row_ok (nth 0 k [])) by (destruct k as [|r k']; [congruence|]; inversion Hk; assumption).
  assert (Hd1 : row_ok (last k [])) by (apply last_Forall_ne; assumption).
  destruct Hd0 as [Ld0 Sd0]. destruct Hd1 as [Ld1 Sd1].
  pose proof (fit_vectors_spec dt y0 y1 ym (nth 0 k []) (last k []) n L0 L1 Lym Ld0 Ld1) as H.
  destruct (fit_vectors O y0 y1 ym (nth 0 k []) (last k []) dt) as [[[[a b] c] d] e].
  destruct H as (La & Lb & Lc & Ld & Le & E). unfold gen_fit_4th_order_polynomial in E.
  rewrite S1, Sym, Sd0, Sd1 in E. injection E as Ea Eb Ec Ed Ee.
  unfold coeff_ok. repeat split; try assumption.
  - rewrite Ea. set (N := fsum O y0).
    pose proof (of_Q_sum 8 8 16 ltac:(reflexivity)) as H16. rewrite <- H16. ring.
  - rewrite Eb. set (N := fsum O y0).
    pose proof (of_Q_sum 18 14 32 ltac:(reflexivity)) as H32. rewrite <- H32. ring.
  - rewrite Ec. set (N := fsum O y0).
    pose proof (of_Q_sum 11 5 16 ltac:(reflexivity)) as H16. rewrite <- H16. ring.
  - rewrite Ed. ring.
Qed.

(* the dense-output polynomial has the total of e at every relative time *)
Lemma polyval_total N c th : coeff_ok N c -> length (polyval O c th) = n /\ fsum O (polyval O c th) = N.
Proof.
  destruct c as [[[[a b] cc] d] e]. intros (La & Lb & Lc & Ld & Le & Sa & Sb & Sc & Sd & Se). unfold polyval.
  assert (L1 : length (vadd O (vscale O th a) b) = n) by (rewrite (vadd_length O), (vscale_length O), La, Lb; apply Nat.min_id).
  assert (L2 : length (vadd O (vscale O th (vadd O (vscale O th a) b)) cc) = n)
    by (rewrite (vadd_length O), (vscale_length O), L1, Lc; apply Nat.min_id).
  assert (L3 : length (vadd O (vscale O th (vadd O (vscale O th (vadd O (vscale O th a) b)) cc)) d) = n)
    by (rewrite (vadd_length O), (vscale_length O), L2, Ld; apply Nat.min_id).
  split; [rewrite (vadd_length O), (vscale_length O), L3, Le; apply Nat.min_id|].
  rewrite (fsum_vadd O T) by (rewrite (vscale_length O); congruence). rewrite (fsum_vscale O T).
  rewrite (fsum_vadd O T) by (rewrite (vscale_length O); congruence). rewrite (fsum_vscale O T).
  rewrite (fsum_vadd O T) by (rewrite (vscale_length O); congruence). rewrite (fsum_vscale O T).
  rewrite (fsum_vadd O T) by (rewrite (vscale_length O); congruence). rewrite (fsum_vscale O T).
  rewrite Sa, Sb, Sc, Sd, Se. ring.
Qed.

(* ------------------------------------------------------------------ the accept / reject loop *)
Variable error_ratio : list F -> list F -> list F -> F.
Variable next_dt : F -> F -> F.
Notation attempt := (attempt O error_ratio next_dt n f).
Notation advance := (fun mx => advance O error_ratio next_dt mx n f).

Definition st_ok (N : F) (s : state O) : Prop :=
  length (st_y O s) = n /\ fsum O (st_y O s) = N /\ row_ok (st_f O s).

Lemma attempt_ok N s : st_ok N s ->
  st_ok N (attempt s) /\
  (coeff_ok N (st_coeff O (attempt s)) \/ (st_coeff O (attempt s) = st_coeff O s /\ st_t O (attempt s) = st_t O s)).
Proof.
  intros (Ly & Sy & Hf). unfold Adaptive.attempt.
  pose proof (rk_step_conserves (st_y O s) (st_f O s) (st_t O s) (st_dt O s) Ly Hf) as H. cbn zeta in H.
  destruct H as (L1 & S1 & Hf1 & _ & Hk).
  destruct (fleb O _ (f1 O)); cbn [st_y st_f st_coeff st_t].
  - split; [split; [exact L1 | split; [rewrite <- Sy; exact S1 | exact Hf1]]|]. left.
    rewrite <- Sy. apply interp_fit_ok; try assumption.
    intro E. pose proof (rk_stages_length (st_y O s) (st_f O s) (st_t O s) (st_dt O s)) as HL.
    unfold rk_step in E. cbn [rk_k] in E. rewrite E in HL. discriminate.
  - split; [split; [exact Ly | split; [exact Sy | exact Hf]]|]. right. split; reflexivity.
Qed.

Lemma advance_ok N mx : forall s target, st_ok N s ->
  st_ok N (advance mx s target) /\
  (coeff_ok N (st_coeff O s) -> coeff_ok N (st_coeff O (advance mx s target))) /\
  (coeff_ok N (st_coeff O (advance mx s target)) \/ st_t O (advance mx s target) = st_t O s).
Proof.
  induction mx as [|fuel IH]; intros s target Hs; cbn [Adaptive.advance].
  - split; [exact Hs|]. split; [auto|]. right; reflexivity.
  - destruct (fltb O (st_t O s) target && fltb O (f0 O) (st_dt O s)).
    + destruct (attempt_ok N s Hs) as [Hs' Hc]. destruct (IH (attempt s) target Hs') as (H1 & H2 & H3).
      split; [exact H1|]. split.
      * intro Hok. apply H2. destruct Hc as [Hc|[Hc _]]; [exact Hc | rewrite Hc; exact Hok].
      * destruct Hc as [Hc|[_ Ht]]; [left; apply H2; exact Hc|].
        destruct H3 as [H3|H3]; [left; exact H3 | right; congruence].
    + split; [exact Hs|]. split; [auto|]. right; reflexivity.
Qed.

(* every row of the solution has the total of the initial state, provided each requested time was
   reached (the loop left because t >= target, not because the step bound or a zero step stopped it) *)
Definition reached (s : state O) (target : F) : Prop := fltb O (st_t O s) target = false.

Definition row_total (N : F) (y : list F) : Prop := length y = n /\ fsum O y = N.

(* once the dense-output coefficients come from an accepted step, all later rows are conservative *)
Lemma scan_conserves N mx : forall targets s, st_ok N s -> coeff_ok N (st_coeff O s) ->
  Forall (row_total N) (scan O error_ratio next_dt mx n f s targets).
Proof.
  induction targets as [|tg targets IH]; intros s Hs Hc; cbn [scan]; [constructor|].
  unfold scan_step. destruct (advance_ok N mx s tg Hs) as (Hs' & Hkeep & _). constructor.
  - apply polyval_total. apply Hkeep. exact Hc.
  - apply IH; [exact Hs' | apply Hkeep; exact Hc].
Qed.

(* the whole solution: row 0 is the initial state; if the first requested time lies ahead and is
   reached, every row has the total of the initial state - whatever the controller does *)
Theorem odeint_conserves mx (y0 : list F) (t0 dt0 tg : F) (targets : list F) :
  length y0 = n -> fltb O t0 tg = true ->
  let s0 := {| st_y := y0; st_f := f t0 y0; st_t := t0; st_dt := dt0; st_last_t := t0; st_coeff := (y0, y0, y0, y0, y0) |} in
  reached (advance mx s0 tg) tg ->
  Forall (row_total (fsum O y0)) (odeint O error_ratio next_dt mx n f y0 t0 dt0 (tg :: targets)).
Proof.
  intros L0 Hlt s0 Hreach. unfold odeint. fold s0. constructor; [split; [exact L0|reflexivity]|].
  assert (Hs0 : st_ok (fsum O y0) s0).
  { unfold st_ok, s0. cbn. split; [exact L0|]. split; [reflexivity|]. split; [apply f_length | apply f_closed]; exact L0. }
  cbn [scan]. unfold scan_step.
  destruct (advance_ok (fsum O y0) mx s0 tg Hs0) as (Hs' & _ & Hprog).
  assert (Hc : coeff_ok (fsum O y0) (st_coeff O (advance mx s0 tg))).
  { destruct Hprog as [Hc|Ht]; [exact Hc|]. exfalso. unfold reached in Hreach. rewrite Ht in Hreach.
    unfold s0 in Hreach. cbn [st_t] in Hreach. congruence. }
  constructor; [apply polyval_total; exact Hc | apply scan_conserves; assumption].
Qed.

End AdaptiveProofs.
