(* C15, compartment order, on whole models without infection flows: two models with the same flows whose compartment
   lists are permutations of one another give every compartment the same rate of change, when both are evaluated at
   "the same" state - the state given as a function of the compartment, laid out in each model's own order. *)
From Coq Require Import QArith Field Ring List String Bool Arith Lia Permutation.
Import ListNotations.
From S2 Require Import Base.Num Base.Arr Model.Expr Model.Struct Model.Rates Spec.RatesSpec
     Proofs.ArrLemmas Proofs.NumLemmas Proofs.BuildProofs Proofs.RatesProofs Proofs.ConservationProofs Proofs.PositivityProofs
     Proofs.InvarianceProofs Proofs.TimeShift Proofs.Scaling Proofs.AggregateRates Proofs.AggregateAll Proofs.RatesBridge Proofs.AggregateFinal.
Local Open Scope nat_scope.
Local Notation length := List.length.

Section CompOrder.
Variable O : NumOps.
Variable T : NumTheory O.
Notation F := (F O).

Variables (m1 m2 : model) (b1 b2 : backend) (p : env O) (t : F) (sigma : comp -> F).
Hypothesis Hflows : m_flows m2 = m_flows m1.
Hypothesis Hperm : Permutation (m_comps m1) (m_comps m2).
Hypothesis W1 : wf m1.
Hypothesis W2 : wf m2.
Hypothesis Hnd1 : NoDup (m_comps m1).
Hypothesis Hfl : forall f, In f (m_flows m1) -> ni_flow f.
Hypothesis Hb1 : prepare_structural m1 = Ok b1.
Hypothesis Hb2 : prepare_structural m2 = Ok b2.
Hypothesis Hpos : forall c, fle O T (f0 O) (sigma c).

Definition layout (M : model) : list F := map sigma (m_comps M).

Lemma layout_nonneg M : Forall (fun v => fle O T (f0 O) v) (layout M).
Proof. unfold layout. apply Forall_forall. intros v Hv. apply in_map_iff in Hv. destruct Hv as [c [<- _]]. apply Hpos. Qed.

Lemma layout_at M c : In c (m_comps M) -> get_clamp (f0 O) (layout M) (comp_index (m_comps M) c) = sigma c.
Proof.
  intro Hc. assert (Hne : m_comps M <> []) by (intro E; rewrite E in Hc; destruct Hc).
  unfold layout. rewrite get_clamp_lt by (rewrite map_length; apply comp_index_lt; exact Hne).
  rewrite (nth_indep _ (f0 O) (sigma c)) by (rewrite map_length; apply comp_index_lt; exact Hne).
  rewrite (map_nth sigma), (comp_index_correct (m_comps M) c c Hc). reflexivity.
Qed.

Lemma frac_same f c : In f (m_flows m1) -> f_src f = Some c -> forallb state_free (flow_exprs f) = true ->
  frac_rate O p t (m_comps m2) (layout m2) f = frac_rate O p t (m_comps m1) (layout m1) f.
Proof.
  intros Hf Ec Hsf. unfold frac_rate, src_index. rewrite Ec.
  assert (Hc1 : In c (m_comps m1)) by (apply (proj1 (wf_flows m1 W1 f Hf)); left; exact Ec).
  assert (Hc2 : In c (m_comps m2)) by (apply (Permutation_in _ Hperm Hc1)).
  rewrite (layout_at m1 c Hc1), (layout_at m2 c Hc2), (weight_state_free O p t (layout m2) (layout m1) f Hsf). reflexivity.
Qed.

Lemma deaths_same : total_deaths O m2 p t (layout m2) = total_deaths O m1 p t (layout m1).
Proof.
  unfold total_deaths. rewrite Hflows. apply (fsum_map_ext O). intros f Hf. apply filter_In in Hf. destruct Hf as [Hf Hk].
  destruct (Hfl f Hf) as (_ & Hsrc & Hsf).
  assert (Kd : f_kind f = KDeath) by (destruct (f_kind f); cbn in Hk; try discriminate; reflexivity).
  destruct (Hsrc (or_intror Kd)) as [c Ec]. apply (frac_same f c Hf Ec Hsf).
Qed.

Lemma ni_rate_same f : In f (m_flows m1) -> ni_rate O p t m2 (layout m2) f = ni_rate O p t m1 (layout m1) f.
Proof.
  intro Hf. destruct (Hfl f Hf) as (Hni & Hsrc & Hsf). unfold ni_rate.
  destruct (f_kind f) eqn:Ek; cbn in Hni; try discriminate.
  - rewrite (weight_state_free O p t (layout m2) (layout m1) f Hsf). f_equal.
    unfold layout. apply (fsum_perm O T). apply Permutation_map. apply Permutation_sym. exact Hperm.
  - rewrite (weight_state_free O p t (layout m2) (layout m1) f Hsf), deaths_same. reflexivity.
  - apply (weight_state_free O p t (layout m2) (layout m1) f Hsf).
  - destruct (Hsrc (or_intror eq_refl)) as [c Ec]. apply (frac_same f c Hf Ec Hsf).
  - destruct (Hsrc (or_introl eq_refl)) as [c Ec]. apply (frac_same f c Hf Ec Hsf).
  - apply (weight_state_free O p t (layout m2) (layout m1) f Hsf).
Qed.

Theorem compartment_order_irrelevant c : In c (m_comps m1) ->
  nth (comp_index (m_comps m2) c) (get_comp_rates O m2 b2 p t (layout m2)) (f0 O)
  = nth (comp_index (m_comps m1) c) (get_comp_rates O m1 b1 p t (layout m1)) (f0 O).
Proof.
  intro Hc1. assert (Hc2 : In c (m_comps m2)) by (apply (Permutation_in _ Hperm Hc1)).
  assert (Hnd2 : NoDup (m_comps m2)) by (apply (Permutation_NoDup Hperm Hnd1)).
  assert (Hni1 : forall f, In f (m_flows m1) -> is_infection (f_kind f) = false) by (intros f Hf; apply (proj1 (Hfl f Hf))).
  assert (Hni2 : forall f, In f (m_flows m2) -> is_infection (f_kind f) = false) by (rewrite Hflows; exact Hni1).
  assert (L1 : comp_index (m_comps m1) c < length (m_comps m1)) by (apply comp_index_lt; intro E; rewrite E in Hc1; destruct Hc1).
  assert (L2 : comp_index (m_comps m2) c < length (m_comps m2)) by (apply comp_index_lt; intro E; rewrite E in Hc2; destruct Hc2).
  rewrite (comp_rates_are_net_rates O T m2 b2 p t (layout m2) Hb2 W2 Hnd2 Hni2 _ c L2).
  rewrite (comp_rates_are_net_rates O T m1 b1 p t (layout m1) Hb1 W1 Hnd1 Hni1 _ c L1).
  rewrite (comp_index_correct _ c c Hc1), (comp_index_correct _ c c Hc2).
  rewrite (vclean_nonneg_id O T _ (layout_nonneg m1)), (vclean_nonneg_id O T _ (layout_nonneg m2)), Hflows.
  unfold net_rate. f_equal; f_equal; apply map_ext_in; intros f Hf; rewrite (ni_rate_same f Hf); reflexivity.
Qed.

End CompOrder.
