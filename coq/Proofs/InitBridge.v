(* C06: the index-array scatter of runner/jax/stratify.py (Model/InitPop.stratify_values) computes
   the specification sv_spec: every stratified compartment is replaced in place by its strata, each
   holding value x split, the others keep their value - for every compartment list, stratification
   and value vector.  Proof by induction on the compartment list from the right: the index arrays of
   cs ++ [c] are those of cs with one more entry each. *)
From Coq Require Import QArith Field Ring List String Bool Arith Lia.
Import ListNotations.
From S2 Require Import Base.Num Base.Arr Model.Expr Model.Struct Model.InitPop
     Proofs.ArrLemmas Proofs.NumLemmas Proofs.InitProofs.
Local Open Scope nat_scope.
Local Notation length := List.length.

(* ------------------------------------------------------------------ list-as-array facts *)
Section Arr.
Context {A : Type}.

Lemma set_nth_app_lt (a b : list A) i v : i < length a -> set_nth (a ++ b) i v = set_nth a i v ++ b.
Proof.
  revert i. induction a as [|h a IH]; intros i Hi; cbn in Hi; [lia|].
  destruct i; cbn; [reflexivity|]. rewrite IH by lia. reflexivity.
Qed.

Lemma set_nth_app_ge (a b : list A) k v : set_nth (a ++ b) (length a + k) v = a ++ set_nth b k v.
Proof. induction a as [|h a IH]; cbn; [reflexivity|]. rewrite IH. reflexivity. Qed.

Lemma scatter_set_app_lt (a b : list A) idx : forall vals a',
  Forall (fun i => i < length a) idx -> a' = a ->
  scatter_set (a' ++ b) idx vals = scatter_set a' idx vals ++ b.
Proof.
  intros vals a' H ->. revert a vals H. induction idx as [|i idx IH]; intros a vals H; [reflexivity|].
  destruct vals as [|v vals]; [reflexivity|]. cbn [scatter_set]. inversion H; subst.
  rewrite set_nth_app_lt by assumption. apply IH.
  eapply Forall_impl; [|eassumption]. intros j Hj. cbn beta in *. rewrite set_nth_length. exact Hj.
Qed.

Lemma scatter_set_snoc (l : list A) idx : forall vals j v l0, l0 = l -> length idx = length vals ->
  scatter_set l0 (idx ++ [j]) (vals ++ [v]) = set_nth (scatter_set l0 idx vals) j v.
Proof.
  intros vals j v l0 ->. revert l vals. induction idx as [|i idx IH]; intros l vals H; destruct vals as [|w vals]; cbn in H; try lia.
  - reflexivity.
  - cbn [app scatter_set]. apply IH. lia.
Qed.

Lemma get_clamp_app_lt (d : A) a b i : i < length a -> get_clamp d (a ++ b) i = get_clamp d a i.
Proof.
  intro H. rewrite !get_clamp_lt by (rewrite ?app_length; lia). apply app_nth1. exact H.
Qed.

Lemma get_clamp_app_last (d : A) a v : get_clamp d (a ++ [v]) (length a) = v.
Proof.
  rewrite get_clamp_lt by (rewrite app_length; cbn; lia). rewrite app_nth2 by lia. rewrite Nat.sub_diag. reflexivity.
Qed.

Lemma gather_app_lt (d : A) a b idx : Forall (fun i => i < length a) idx -> gather d (a ++ b) idx = gather d a idx.
Proof.
  intro H. unfold gather. apply map_ext_in. intros i Hi. apply get_clamp_app_lt.
  rewrite Forall_forall in H. apply H. exact Hi.
Qed.

Lemma gather_snoc (d : A) l idx j : gather d l (idx ++ [j]) = gather d l idx ++ [get_clamp d l j].
Proof. unfold gather. rewrite map_app. reflexivity. Qed.

Lemma combine_app_eq {B} (l1 l1' : list A) (l2 l2' : list B) : length l1 = length l2 ->
  combine (l1 ++ l1') (l2 ++ l2') = combine l1 l2 ++ combine l1' l2'.
Proof.
  revert l2. induction l1 as [|a l1 IH]; intros [|b l2] H; cbn in H; try lia; [reflexivity|].
  cbn. rewrite IH by lia. reflexivity.
Qed.

Lemma list_snoc (l : list A) n : length l = S n -> exists l' x, l = l' ++ [x] /\ length l' = n.
Proof.
  intro H. destruct (exists_last (l:=l)) as [l' [x E]]; [intro E; subst; discriminate|].
  exists l', x. split; [exact E|]. rewrite E, app_length in H. cbn [length] in H. lia.
Qed.
End Arr.

(* ------------------------------------------------------------------ the index arrays of cs ++ [c] *)
Definition same_lists (a b : strat_idx) : Prop :=
  si_strat_base a = si_strat_base b /\ si_pass_base a = si_pass_base b /\ si_pass_target a = si_pass_target b
  /\ si_stratum_target a = si_stratum_target b.

Lemma sif_lists_only s cs base idx a b : same_lists a b ->
  strat_indices_from s cs base idx a = strat_indices_from s cs base idx b.
Proof.
  intros (H1 & H2 & H3 & H4). destruct cs as [|c t]; cbn; rewrite H1, H2, H3, H4; reflexivity.
Qed.

Lemma sif_app s cs1 : forall cs2 base idx acc,
  strat_indices_from s (cs1 ++ cs2) base idx acc =
  strat_indices_from s cs2 (base + length cs1) (si_new_size (strat_indices_from s cs1 base idx acc))
                     (strat_indices_from s cs1 base idx acc).
Proof.
  induction cs1 as [|c cs1 IH]; intros cs2 base idx acc.
  - cbn [app length strat_indices_from si_new_size]. rewrite Nat.add_0_r.
    apply sif_lists_only. repeat split; reflexivity.
  - cbn [app length strat_indices_from]. replace (base + S (length cs1)) with (S base + length cs1) by lia.
    destruct (has_name_in_list c (s_comps s)); rewrite IH; reflexivity.
Qed.

(* one more compartment at the end *)
Definition snoc_idx (s : strat) (c : comp) (base : nat) (r : strat_idx) : strat_idx :=
  let idx := si_new_size r in
  if has_name_in_list c (s_comps s) then
    {| si_strat_base := si_strat_base r ++ [base]; si_pass_base := si_pass_base r;
       si_pass_target := si_pass_target r;
       si_stratum_target := map (fun kl => snd kl ++ [idx + fst kl]) (enumerate (si_stratum_target r));
       si_new_size := idx + length (s_strata s) |}
  else
    {| si_strat_base := si_strat_base r; si_pass_base := si_pass_base r ++ [base];
       si_pass_target := si_pass_target r ++ [idx];
       si_stratum_target := si_stratum_target r; si_new_size := S idx |}.

Lemma strat_indices_snoc s cs c :
  strat_indices s (cs ++ [c]) = snoc_idx s c (length cs) (strat_indices s cs).
Proof.
  unfold strat_indices. rewrite sif_app. cbn [Nat.add]. set (r := strat_indices_from s cs 0 0 _).
  unfold snoc_idx. cbn [strat_indices_from]. destruct (has_name_in_list c (s_comps s)); reflexivity.
Qed.

(* ranges and lengths of the index arrays *)
Record idx_ok (s : strat) (cs : list comp) (r : strat_idx) : Prop := {
  ok_nst : length (si_stratum_target r) = length (s_strata s);
  ok_pt : Forall (fun i => i < si_new_size r) (si_pass_target r);
  ok_st : Forall (Forall (fun i => i < si_new_size r)) (si_stratum_target r);
  ok_pb : Forall (fun i => i < length cs) (si_pass_base r);
  ok_sb : Forall (fun i => i < length cs) (si_strat_base r);
  ok_plen : length (si_pass_base r) = length (si_pass_target r);
  ok_slen : Forall (fun t => length t = length (si_strat_base r)) (si_stratum_target r) }.

Lemma Forall_lt_weaken (l : list nat) a b : a <= b -> Forall (fun i => i < a) l -> Forall (fun i => i < b) l.
Proof. intros H. apply Forall_impl. intros; lia. Qed.

Lemma enumerate_from_length' {A} k (l : list A) : length (enumerate_from k l) = length l.
Proof. revert k; induction l; intro k; cbn; [reflexivity|]. rewrite IHl. reflexivity. Qed.

Lemma Forall_enumerate_map {A B} (P : B -> Prop) (g : nat * A -> B) (l : list A) k :
  (forall j a, In a l -> k <= j < k + length l -> P (g (j, a))) -> Forall P (map g (enumerate_from k l)).
Proof.
  revert k. induction l as [|h l IH]; intros k H; cbn; constructor.
  - apply H; [left; reflexivity | cbn; lia].
  - apply IH. intros j a Ha Hj. apply H; [right; exact Ha | cbn; lia].
Qed.

Lemma idx_ok_all s cs : idx_ok s cs (strat_indices s cs).
Proof.
  induction cs as [|c cs IH] using rev_ind.
  - unfold strat_indices. cbn. constructor; cbn; try constructor; try reflexivity.
    + rewrite map_length. reflexivity.
    + induction (s_strata s); cbn; constructor; [constructor|assumption].
    + induction (s_strata s); cbn; constructor; [reflexivity|assumption].
  - rewrite strat_indices_snoc. set (r := strat_indices s cs) in *. destruct IH as [H1 H2 H3 H4 H5 H6 H7].
    unfold snoc_idx. destruct (has_name_in_list c (s_comps s)); constructor; cbn; rewrite ?(app_length cs [c]); cbn [length].
    + unfold enumerate. rewrite map_length, enumerate_from_length'. exact H1.
    + eapply Forall_lt_weaken; [|exact H2]. lia.
    + unfold enumerate. apply Forall_enumerate_map. intros j t Ht Hj. cbn [fst snd].
      rewrite Forall_forall in H3. apply Forall_app. split.
      * eapply Forall_lt_weaken; [|apply H3; exact Ht]. lia.
      * constructor; [|constructor]. rewrite H1 in Hj. lia.
    + eapply Forall_lt_weaken; [|exact H4]. lia.
    + apply Forall_app. split; [eapply Forall_lt_weaken; [|exact H5]; lia | constructor; [lia|constructor]].
    + exact H6.
    + unfold enumerate. apply Forall_enumerate_map. intros j t Ht Hj. cbn [fst snd].
      rewrite Forall_forall in H7. rewrite !app_length, (H7 t Ht). reflexivity.
    + exact H1.
    + apply Forall_app. split; [eapply Forall_lt_weaken; [|exact H2]; lia | constructor; [lia|constructor]].
    + eapply Forall_impl; [|exact H3]. intros t. apply Forall_lt_weaken. lia.
    + apply Forall_app. split; [eapply Forall_lt_weaken; [|exact H4]; lia | constructor; [lia|constructor]].
    + eapply Forall_lt_weaken; [|exact H5]. lia.
    + rewrite !app_length, H6. reflexivity.
    + exact H7.
Qed.

(* ------------------------------------------------------------------ the values *)
Section Bridge.
Variable O : NumOps.
Variable T : NumTheory O.
Variable p : env O.
Notation F := (F O).

Definition prop_of (s : strat) (st : string) : F := split_of O p s st.

(* stratify_values in terms of the index arrays *)
Definition sv_step (s : strat) (base : list F) (acc : list F) (kt : string * list nat) : list F :=
  scatter_set acc (snd kt) (map (fun v => fmul O v (prop_of s (fst kt))) base).

Definition sv_of (s : strat) (r : strat_idx) (vals : list F) : list F :=
  fold_left (sv_step s (gather (f0 O) vals (si_strat_base r)))
            (combine (s_strata s) (si_stratum_target r))
            (scatter_set (repeat (f0 O) (si_new_size r)) (si_pass_target r) (gather (f0 O) vals (si_pass_base r))).

Lemma stratify_values_sv_of s cs vals : stratify_values O p s cs vals = sv_of s (strat_indices s cs) vals.
Proof. reflexivity. Qed.

Lemma sv_step_length s base acc kt : length (sv_step s base acc kt) = length acc.
Proof. unfold sv_step. apply scatter_set_length. Qed.

(* the strata scatters leave a suffix beyond their targets alone *)
Lemma fold_sv_step_app s base l : forall A X,
  Forall (fun kt => Forall (fun i => i < length A) (snd kt)) l ->
  fold_left (sv_step s base) l (A ++ X) = fold_left (sv_step s base) l A ++ X.
Proof.
  induction l as [|kt l IH]; intros A X H; [reflexivity|]. cbn [fold_left]. inversion H; subst.
  unfold sv_step at 2. rewrite (scatter_set_app_lt A X (snd kt) _ A) by (try assumption; reflexivity).
  fold (sv_step s base A kt). apply IH.
  eapply Forall_impl; [|eassumption]. intros kt' Hk. rewrite sv_step_length. exact Hk.
Qed.

(* with one more target N + k per stratum and one more base value v *)
Lemma fold_sv_step_snoc s base v N : forall sts Ts k0 A Z,
  length A = N -> length sts = length Ts ->
  Forall (fun t => Forall (fun i => i < N) t /\ length t = length base) Ts ->
  fold_left (sv_step s (base ++ [v]))
            (combine sts (map (fun kl => snd kl ++ [N + fst kl]) (enumerate_from k0 Ts))) (A ++ Z)
  = fold_left (sv_step s base) (combine sts Ts) A
    ++ fold_left (fun Z' kst => set_nth Z' (fst kst) (fmul O v (prop_of s (snd kst)))) (enumerate_from k0 sts) Z.
Proof.
  induction sts as [|st sts IH]; intros Ts k0 A Z HA HL HT; destruct Ts as [|t Ts]; cbn in HL; try lia.
  - reflexivity.
  - cbn [enumerate_from map combine fold_left fst snd]. inversion HT as [|? ? [Ht1 Ht2] HT']; subst.
    unfold sv_step at 2. cbn [fst snd]. rewrite map_app. cbn [map].
    rewrite (scatter_set_snoc (A ++ Z) t _ _ _ (A ++ Z)) by (try reflexivity; rewrite map_length; exact Ht2).
    rewrite (scatter_set_app_lt A Z t _ A) by (try reflexivity; exact Ht1).
    replace (length A + k0) with (length (scatter_set A t (map (fun v0 => fmul O v0 (prop_of s st)) base)) + k0)
      by (rewrite scatter_set_length; reflexivity).
    rewrite set_nth_app_ge.
    rewrite IH; [| rewrite scatter_set_length; reflexivity | lia | exact HT'].
    reflexivity.
Qed.

Lemma fold_set_enumerate (g : string -> F) : forall sts (done : list F),
  fold_left (fun Z' kst => set_nth Z' (fst kst) (g (snd kst))) (enumerate_from (length done) sts)
            (done ++ repeat (f0 O) (length sts))
  = done ++ map g sts.
Proof.
  induction sts as [|st sts IH]; intro done; cbn [enumerate_from fold_left length repeat map fst snd].
  - reflexivity.
  - replace (length done) with (length done + 0) at 2 by lia. rewrite set_nth_app_ge. cbn [set_nth].
    change (done ++ g st :: repeat (f0 O) (length sts)) with (done ++ [g st] ++ repeat (f0 O) (length sts)).
    rewrite app_assoc. replace (S (length done)) with (length (done ++ [g st])) by (rewrite app_length; cbn; lia).
    rewrite IH. rewrite <- app_assoc. reflexivity.
Qed.

Lemma repeat_app_plus {A} (x : A) n m : repeat x (n + m) = repeat x n ++ repeat x m.
Proof. induction n; cbn; [reflexivity|]. rewrite IHn. reflexivity. Qed.

Lemma sv_of_length s r vals : length (sv_of s r vals) = si_new_size r.
Proof.
  unfold sv_of. set (l := combine _ _). set (a := scatter_set _ _ _).
  assert (Ha : length a = si_new_size r) by (unfold a; rewrite scatter_set_length, repeat_length; reflexivity).
  clearbody a. revert a Ha. induction l as [|kt l IH]; intros a Ha; [exact Ha|]. cbn [fold_left].
  apply IH. rewrite sv_step_length. exact Ha.
Qed.

(* ----- the bridge ----- *)
Theorem stratify_values_spec s cs : forall vals, length vals = length cs ->
  stratify_values O p s cs vals = map snd (sv_spec O p s (combine cs vals)).
Proof.
  induction cs as [|c cs IH] using rev_ind; intros vals HL.
  - destruct vals; [|discriminate]. cbn. unfold stratify_values, strat_indices. cbn.
    set (l := combine _ _). induction l as [|kt l IHl]; [reflexivity|]. cbn. destruct (snd kt); exact IHl.
  - rewrite app_length in HL. cbn [length] in HL. rewrite Nat.add_1_r in HL.
    destruct (list_snoc vals (length cs) HL) as [vals' [v [-> HL']]].
    rewrite (combine_app_eq cs [c] vals' [v]) by (symmetry; exact HL').
    unfold sv_spec. rewrite flat_map_app, map_app. fold (sv_spec O p s (combine cs vals')).
    rewrite <- (IH vals' HL'). clear IH.
    rewrite !stratify_values_sv_of, strat_indices_snoc.
    pose proof (idx_ok_all s cs) as [H1 H2 H3 H4 H5 H6 H7].
    pose proof (sv_of_length s (strat_indices s cs) vals') as HN.
    set (r := strat_indices s cs) in *. unfold snoc_idx. cbn [combine flat_map fst snd app].
    rewrite <- HL' in H4, H5.
    destruct (has_name_in_list c (s_comps s)) eqn:Ec.
    + (* stratified: one block of values v x split at the end *)
      unfold sv_of at 1. cbn [si_strat_base si_pass_base si_pass_target si_stratum_target si_new_size].
      rewrite repeat_app_plus.
      rewrite (scatter_set_app_lt (repeat (f0 O) (si_new_size r)) _ (si_pass_target r) _ (repeat (f0 O) (si_new_size r)))
        by (try reflexivity; rewrite repeat_length; exact H2).
      rewrite (gather_app_lt (f0 O) vals' [v] (si_pass_base r)) by exact H4.
      rewrite gather_snoc.
      rewrite (gather_app_lt (f0 O) vals' [v] (si_strat_base r)) by exact H5.
      rewrite <- HL', get_clamp_app_last.
      unfold enumerate.
      rewrite (fold_sv_step_snoc s (gather (f0 O) vals' (si_strat_base r)) v (si_new_size r)).
      * fold (sv_of s r vals').
        rewrite app_nil_r. f_equal.
        pose proof (fold_set_enumerate (fun st => fmul O v (prop_of s st)) (s_strata s) []) as HZ.
        cbn [length app] in HZ. rewrite HZ. rewrite map_map. reflexivity.
      * rewrite scatter_set_length, repeat_length. reflexivity.
      * symmetry. exact H1.
      * rewrite Forall_forall in H3, H7. apply Forall_forall. intros t Ht. split; [apply H3; exact Ht|].
        rewrite gather_length. apply H7. exact Ht.
    + (* passed through: one value at the end *)
      unfold sv_of at 1. cbn [si_strat_base si_pass_base si_pass_target si_stratum_target si_new_size].
      replace (S (si_new_size r)) with (si_new_size r + 1) by lia. rewrite repeat_app_plus. cbn [repeat].
      rewrite gather_snoc.
      rewrite (gather_app_lt (f0 O) vals' [v] (si_pass_base r)) by exact H4.
      rewrite (gather_app_lt (f0 O) vals' [v] (si_strat_base r)) by exact H5.
      rewrite <- HL', get_clamp_app_last.
      rewrite (scatter_set_snoc _ (si_pass_target r) _ _ _ _ eq_refl) by (rewrite gather_length; symmetry; exact H6).
      rewrite (scatter_set_app_lt (repeat (f0 O) (si_new_size r)) _ (si_pass_target r) _ (repeat (f0 O) (si_new_size r)))
        by (try reflexivity; rewrite repeat_length; exact H2).
      set (X := scatter_set (repeat (f0 O) (si_new_size r)) (si_pass_target r) (gather (f0 O) vals' (si_pass_base r))).
      assert (HX : length X = si_new_size r) by (unfold X; rewrite scatter_set_length, repeat_length; reflexivity).
      assert (E : set_nth (X ++ [f0 O]) (si_new_size r) v = X ++ [v]).
      { rewrite <- HX. replace (length X) with (length X + 0) by lia. rewrite set_nth_app_ge. reflexivity. }
      rewrite E.
      rewrite fold_sv_step_app.
      * fold (sv_of s r vals'). rewrite app_nil_r. reflexivity.
      * apply Forall_forall. intros [st t] Hin. cbn [snd]. apply in_combine_r in Hin.
        rewrite HX. rewrite Forall_forall in H3. apply H3. exact Hin.
Qed.

End Bridge.

(* ------------------------------------------------------------------ the whole initial population *)
Section Whole.
Variable O : NumOps.
Variable T : NumTheory O.
Variable p : env O.
Notation F := (F O).

(* the recorded actions, replayed on (compartment, value) pairs *)
Definition ip_step (m : model) (cvs : list (comp * F)) (a : action) : list (comp * F) :=
  match a with
  | AStratify s => sv_spec O p s cvs
  | ARebalance sname filt props => combine (map fst cvs) (rebalance O p m (map snd cvs) sname filt props)
  end.

Definition initial_pairs (m : model) : list (comp * F) :=
  let dist := match m_initpop m with Some d => d | None => [] end in
  map (fun n => ({| c_name := n; c_strata := [] |},
                 match assoc n dist with Some e => static_eval O p e | None => f0 O end)) (m_orig m).

Lemma fold_preserves_length {B} (f : list F -> B -> list F) l :
  (forall acc b, length (f acc b) = length acc) -> forall acc, length (fold_left f l acc) = length acc.
Proof. intro H. induction l as [|b l IH]; intro acc; [reflexivity|]. cbn. rewrite IH. apply H. Qed.

Lemma rebalance_length m pop sname filt props : length (rebalance O p m pop sname filt props) = length pop.
Proof.
  unfold rebalance. apply fold_preserves_length. intros acc g. apply fold_preserves_length. intros acc' i.
  destruct (nth_error (m_comps m) i) as [c|]; [|reflexivity].
  destruct (strata_get (c_strata c) sname) as [k|]; [|reflexivity].
  destruct (assoc k props); [apply set_nth_length|reflexivity].
Qed.

Lemma map_fst_combine {A B} (l1 : list A) (l2 : list B) : length l1 = length l2 -> map fst (combine l1 l2) = l1.
Proof. revert l2; induction l1 as [|a l1 IH]; intros [|b l2] H; cbn in H; try lia; [reflexivity|]. cbn. rewrite IH by lia. reflexivity. Qed.
Lemma map_snd_combine {A B} (l1 : list A) (l2 : list B) : length l1 = length l2 -> map snd (combine l1 l2) = l2.
Proof. revert l2; induction l1 as [|a l1 IH]; intros [|b l2] H; cbn in H; try lia; [reflexivity|]. cbn. rewrite IH by lia. reflexivity. Qed.
Lemma combine_fst_snd {A B} (l : list (A * B)) : combine (map fst l) (map snd l) = l.
Proof. induction l as [|[a b] l IH]; [reflexivity|]. cbn. rewrite IH. reflexivity. Qed.

(* get_calculate_initial_pop = the replay of the actions on pairs: values and compartments stay aligned *)
Theorem initial_population_replay (m : model) :
  m_arraypop m = None ->
  initial_population O m p = map snd (fold_left (ip_step m) (m_actions m) (initial_pairs m)).
Proof.
  intro Harr. unfold initial_population. rewrite Harr.
  set (init := map _ (m_orig m)). set (cs0 := map _ (m_orig m)).
  assert (E0 : initial_pairs m = combine cs0 init).
  { unfold initial_pairs, cs0, init. induction (m_orig m) as [|n l IH]; [reflexivity|]. cbn. rewrite IH. reflexivity. }
  assert (L0 : length init = length cs0) by (unfold init, cs0; rewrite !map_length; reflexivity).
  rewrite E0. clear E0. generalize dependent init. generalize dependent cs0.
  induction (m_actions m) as [|a acts IH]; intros cs vals L.
  - cbn. rewrite map_snd_combine by (symmetry; exact L). reflexivity.
  - cbn [fold_left]. destruct a as [s | sname filt props]; cbn [ip_step fst snd].
    + rewrite (stratify_values_spec O p s cs vals L).
      set (SV := sv_spec O p s (combine cs vals)).
      assert (Ec : stratify_comps s cs = map fst SV).
      { unfold SV. rewrite (sv_spec_comps O p s (combine cs vals)), map_fst_combine by (symmetry; exact L). reflexivity. }
      rewrite Ec. rewrite IH by (rewrite !map_length; reflexivity). rewrite combine_fst_snd. reflexivity.
    + rewrite map_fst_combine, map_snd_combine by (symmetry; exact L).
      apply IH. rewrite rebalance_length. exact L.
Qed.

(* without population-split adjustments: the declared distribution pushed through the splits *)
Definition only_stratifications (m : model) : list strat :=
  flat_map (fun a => match a with AStratify s => [s] | ARebalance _ _ _ => [] end) (m_actions m).
Definition no_rebalance (m : model) : Prop :=
  Forall (fun a => match a with AStratify _ => True | ARebalance _ _ _ => False end) (m_actions m).

Theorem initial_population_splits (m : model) :
  m_arraypop m = None -> no_rebalance m ->
  initial_population O m p = map snd (fold_left (fun cvs s => sv_spec O p s cvs) (only_stratifications m) (initial_pairs m)).
Proof.
  intros Harr Hno. rewrite (initial_population_replay m Harr). f_equal.
  unfold only_stratifications, no_rebalance in *. generalize (initial_pairs m).
  induction (m_actions m) as [|a acts IH]; intro cvs; [reflexivity|]. inversion Hno; subst.
  destruct a; [|contradiction]. cbn [fold_left flat_map app ip_step]. apply IH. assumption.
Qed.

(* ... hence the total of the initial population is the total of the declared distribution whenever
   every stratification's split sums to one *)
Theorem initial_population_total (m : model) :
  m_arraypop m = None -> no_rebalance m ->
  Forall (splits_sum_to_one O p) (only_stratifications m) ->
  fsum O (initial_population O m p) = fsum O (map snd (initial_pairs m)).
Proof.
  intros Harr Hno Hs. rewrite (initial_population_splits m Harr Hno). generalize (initial_pairs m).
  induction (only_stratifications m) as [|s l IH]; intro cvs; [reflexivity|]. inversion Hs; subst.
  cbn [fold_left]. rewrite IH by assumption. apply (sv_spec_grand_total O T p); assumption.
Qed.

End Whole.
