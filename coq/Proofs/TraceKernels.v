(* C19: the translated kernels (Gen/TraceGen.v, regenerated from the source on every run) pass the
   binding-time check with every run-time input dynamic; by bt_sound they are traceable. *)
From Coq Require Import QArith ZArith List String Bool.
Import ListNotations.
From S2 Require Import Model.Trace Proofs.TraceProofs Gen.TraceGen.
Local Open Scope string_scope.

Definition traceable (g : benv) (e : exp) : Prop :=
  forall ext fuel r, agrees g r -> forall w, pe ext fuel r e <> Conc w.

Lemma checked_traceable g e t : bt_check g e = Some t -> traceable g e.
Proof. intros E ext fuel r Hag. apply (checked_never_concretizes ext fuel g e t r E Hag). Qed.

Lemma bs_checked : bt_check k_binary_search_sum_ge_inputs k_binary_search_sum_ge = Some Dy.
Proof. vm_compute. reflexivity. Qed.
Lemma pc_checked : bt_check k_piecewise_constant_inputs k_piecewise_constant = Some Dy.
Proof. vm_compute. reflexivity. Qed.
Lemma lc_checked : bt_check k_linear_curve_at_x_inputs k_linear_curve_at_x = Some Dy.
Proof. vm_compute. reflexivity. Qed.
Lemma il_checked : bt_check k_interpolate_linear_inputs k_interpolate_linear = Some Dy.
Proof. vm_compute. reflexivity. Qed.
Lemma sc_checked : bt_check k_sigmoidal_curve_at_x_inputs k_sigmoidal_curve_at_x = Some Dy.
Proof. vm_compute. reflexivity. Qed.
Lemma is_checked : bt_check k_interpolate_sigmoidal_inputs k_interpolate_sigmoidal = Some Dy.
Proof. vm_compute. reflexivity. Qed.
Lemma cc_checked : bt_check k_clean_compartments_inputs k_clean_compartments = Some Dy.
Proof. vm_compute. reflexivity. Qed.

Theorem kernels_traceable :
  traceable k_binary_search_sum_ge_inputs k_binary_search_sum_ge /\
  traceable k_piecewise_constant_inputs k_piecewise_constant /\
  traceable k_linear_curve_at_x_inputs k_linear_curve_at_x /\
  traceable k_interpolate_linear_inputs k_interpolate_linear /\
  traceable k_sigmoidal_curve_at_x_inputs k_sigmoidal_curve_at_x /\
  traceable k_interpolate_sigmoidal_inputs k_interpolate_sigmoidal /\
  traceable k_clean_compartments_inputs k_clean_compartments.
Proof.
  repeat split; eapply checked_traceable;
    [apply bs_checked | apply pc_checked | apply lc_checked | apply il_checked | apply sc_checked | apply is_checked | apply cc_checked].
Qed.

(* the same code with one array-level decision replaced by a Python-level one is refused by the check
   and does hit the concretisation error when traced (so the check is not vacuous) *)
Definition bad_clean : exp :=
  EPyIf (EP2 PLt (EP2 PIndex (EVar "compartment_values") (ELit (VS 0))) (ELit (VS 0))) (ELit (VS 0)) (EVar "compartment_values").

Definition no_ext : string -> val -> option val := fun _ _ => None.
Definition traced_input (n : nat) (x : string) : tval := Traced (ShA n) (fun s => s x).

Example bad_clean_refused :
  bt_check k_clean_compartments_inputs bad_clean = None
  /\ pe no_ext 10 [("compartment_values", traced_input 3 "compartment_values")] bad_clean = Conc "truth value of a traced array".
Proof. split; vm_compute; reflexivity. Qed.

(* the translated kernels compute what the code computes: binary search on concrete values *)
Example bs_eager :
  ev no_ext 20 [("x", VS (5#2)); ("points", VA [0; 1; 2; 3; 4])] k_binary_search_sum_ge = Some (VS 3)
  /\ ev no_ext 20 [("x", VS (-1)); ("points", VA [0; 1; 2; 3; 4])] k_binary_search_sum_ge = Some (VS 0)
  /\ ev no_ext 20 [("x", VS 4); ("points", VA [0; 1; 2; 3; 4])] k_binary_search_sum_ge = Some (VS 5).
Proof. repeat split; vm_compute; reflexivity. Qed.

(* tracing it with both inputs unknown succeeds, and the traced function, applied to run-time
   inputs, returns the eager result *)
Example bs_traced :
  match pe no_ext 20 [("x", Traced ShS (fun s => s "x")); ("points", traced_input 5 "points")] k_binary_search_sum_ge with
  | Ok tv => force tv (fun k => if String.eqb k "x" then Some (VS (5#2)) else Some (VA [0; 1; 2; 3; 4])) = Some (VS 3)
  | _ => False
  end.
Proof. vm_compute. reflexivity. Qed.
