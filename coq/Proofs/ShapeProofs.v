(* C12: shape of the results - one row per model time (start + k * timestep), one column per
   compartment; the compartment list is the replay of the recorded stratifications. *)
From Coq Require Import QArith List String Bool Arith Lia.
Import ListNotations.
From S2 Require Import Base.Num Base.Arr Model.Expr Model.Struct Model.Rates Model.InitPop Model.Solvers Model.Derived
     Model.Run Model.Program Gen.SolversGen
     Proofs.ArrLemmas Proofs.NumLemmas Proofs.BuildProofs Proofs.ConservationProofs Proofs.InitProofs Proofs.InitBridge.
Local Open Scope nat_scope.
Local Notation length := List.length.

(* ---------------------------------------------------------------- the recorded actions describe the compartments *)
Definition replay_comps (orig : list string) (acts : list action) : list comp :=
  fold_left (fun cs a => match a with AStratify s => stratify_comps s cs | ARebalance _ _ _ => cs end) acts
            (map (fun n => {| c_name := n; c_strata := [] |}) orig).

Definition actions_ok (m : model) : Prop := m_comps m = replay_comps (m_orig m) (m_actions m).

Lemma replay_comps_snoc orig acts a :
  replay_comps orig (acts ++ [a]) =
  match a with AStratify s => stratify_comps s (replay_comps orig acts) | ARebalance _ _ _ => replay_comps orig acts end.
Proof. unfold replay_comps. rewrite fold_left_app. reflexivity. Qed.

Lemma stratify_with_actions m s0 m' :
  stratify_with m s0 = Ok m' -> m_actions m' = m_actions m ++ [AStratify (normalise_strat s0)].
Proof.
  unfold stratify_with, not_finalized. intro H. cbn zeta in H.
  unfold bind at 1 in H. destruct (validate_strat_object s0); [|discriminate].
  inv_guard H.
  repeat match type of H with
         | context [match s_mix ?s with _ => _ end] => destruct (s_mix s) eqn:?; cbn [bind] in H; inv_guard H
         | context [if is_strain ?k then _ else _] => destruct (is_strain k) eqn:?; cbn [bind] in H; inv_guard H
         end;
  (unfold bind at 1 in H;
   match type of H with context [collect ?f ?l] => destruct (collect f l) as [fl0|] eqn:Ecol; [|discriminate] end;
   destruct (is_age (s_kind (normalise_strat s0))) eqn:Eage; cbn [bind] in H; inv_guard H;
   [ match type of H with context [fold_left ?f ?l ?a] => destruct (fold_left f l a) as [m2|] eqn:Efold; [|discriminate] end;
     apply add_flows_frame in Efold; destruct Efold as [fl ->]; injection H as <-
   | injection H as <- ];
   reflexivity).
Qed.

Lemma actions_ok_apply_op m o m' : actions_ok m -> apply_op m o = Ok m' -> actions_ok m'.
Proof.
  unfold actions_ok. intros W H. destruct o; cbn [apply_op] in H.
  - unfold set_initial_population, not_finalized, bind in H. inv_guard H. injection H as <-. exact W.
  - unfold init_population_with_graphobject, not_finalized, bind in H. inv_guard H. injection H as <-. exact W.
  - destruct (add_flow_frame _ _ _ H) as [fl ->]. exact W.
  - destruct (add_universal_death_new _ _ _ _ H) as [new [-> _]]. exact W.
  - destruct (stratify_with_inv _ _ _ H) as (Hc & _ & _ & Ho & _). cbn zeta in Hc.
    rewrite (stratify_with_actions _ _ _ H), replay_comps_snoc, Hc, Ho, W. reflexivity.
  - unfold adjust_population_split, not_finalized, bind in H. inv_guard H.
    destruct (find _ (m_strats m)); [|discriminate]. inv_guard H. injection H as <-. cbn [m_comps m_orig m_actions].
    rewrite replay_comps_snoc. exact W.
  - unfold request_output, not_finalized, bind in H. inv_guard H.
    destruct r; inv_guard H; injection H as <-; exact W.
  - injection H as <-. exact W.
  - unfold add_computed_value, bind in H. inv_guard H. injection H as <-. exact W.
  - unfold finalize, bind in H. inv_guard H. injection H as <-. exact W.
  - injection H as <-. exact W.
  - unfold add_flow_dyn, bind in H.
    assert (exists fs', add_flow m fs' = Ok m') as [fs' H'].
    { destruct (fs_kind fs); try (destruct (validate_flowparam v); [|discriminate]); eexists; exact H. }
    clear H. rename H' into H. destruct (add_flow_frame _ _ _ H) as [fl ->]. exact W.
  - unfold add_universal_death_dyn, bind in H. destruct (validate_flowparam v) as [param|]; [|discriminate]. destruct (add_universal_death_new _ _ _ _ H) as [new [-> _]]. exact W.
Qed.

Theorem actions_ok_build t0 t1 h comps inf ops m : build_ok t0 t1 h comps inf ops = Some m -> actions_ok m.
Proof.
  unfold build_ok, build. destruct (new_model t0 t1 h comps inf) as [m0|] eqn:E0; [|discriminate].
  assert (W0 : actions_ok m0).
  { unfold new_model, bind in E0. repeat (inv_guard E0). injection E0 as <-. reflexivity. }
  destruct (apply_ops m0 ops 1) as [m1 e] eqn:E1. destruct e; [discriminate|]. intro H. injection H as <-.
  clear E0. revert m0 W0 E1. generalize 1. induction ops as [|o ops IH]; intros k m0 W0 E1; cbn in E1.
  - injection E1 as <-. exact W0.
  - destruct (apply_op m0 o) as [m2|w] eqn:E; [|discriminate].
    apply (IH (S k) m2); [eapply actions_ok_apply_op; eassumption | exact E1].
Qed.

(* ---------------------------------------------------------------- lengths *)
Section Shape.
Variable O : NumOps.
Variable T : NumTheory O.
Notation F := (F O).

Lemma sv_spec_length (p : env O) s cvs : length (sv_spec O p s cvs) = length (stratify_comps s (map fst cvs)).
Proof. rewrite <- (sv_spec_comps O p s cvs), map_length. reflexivity. Qed.

(* the initial population has one entry per compartment *)
Theorem initial_population_length (m : model) (p : env O) :
  actions_ok m -> m_arraypop m = None -> length (initial_population O m p) = length (m_comps m).
Proof.
  intros W Harr. rewrite (initial_population_replay O p m Harr), map_length. rewrite W. unfold replay_comps.
  assert (G : forall acts cvs, length (fold_left (ip_step O p m) acts cvs)
                              = length (fold_left (fun cs a => match a with AStratify s => stratify_comps s cs | ARebalance _ _ _ => cs end)
                                                  acts (map fst cvs))).
  { induction acts as [|a acts IH]; intro cvs; cbn [fold_left]; [rewrite map_length; reflexivity|].
    rewrite IH. f_equal. f_equal. destruct a as [s|sname filt props]; cbn [ip_step].
    - apply (sv_spec_comps O p s cvs).
    - apply map_fst_combine. rewrite rebalance_length, !map_length. reflexivity. }
  rewrite G. f_equal. f_equal. unfold initial_pairs. rewrite map_map. reflexivity.
Qed.

Lemma euler_step_length (f : rhs O) h t y n : (forall t y, length (f t y) = n) -> length y = n -> length (gen_euler_step O f h t y) = n.
Proof. intros Hf Hy. unfold gen_euler_step. rewrite (vadd_length O), (vscale_length O), Hf, Hy. apply Nat.min_id. Qed.

Lemma rk4_step_length (f : rhs O) h t y n : (forall t y, length (f t y) = n) -> length y = n -> length (gen_rk4_step O f h t y) = n.
Proof.
  intros Hf Hy. unfold gen_rk4_step. cbn zeta.
  repeat (rewrite ?(vadd_length O), ?(vscale_length O), ?Hf, ?Hy, ?Nat.min_id). reflexivity.
Qed.

Lemma iterate_steps_shape (step : F -> list F -> list F) h n : (forall t y, length y = n -> length (step t y) = n) ->
  forall k t y, length y = n ->
    length (iterate_steps O step h t y k) = S k /\ Forall (fun row => length row = n) (iterate_steps O step h t y k).
Proof.
  intros Hstep k. induction k as [|k IH]; intros t y Hy; cbn [iterate_steps].
  - split; [reflexivity|]. constructor; [exact Hy|constructor].
  - destruct (IH (fadd O t h) (step t y) (Hstep t y Hy)) as [L Fa]. split; [cbn; rewrite L; reflexivity|].
    constructor; assumption.
Qed.

(* the outputs: one row per model time, one column per compartment *)
Theorem outputs_shape (m : model) (s : solver) (p pd : env O) rr :
  actions_ok m -> m_arraypop m = None -> 1 <= num_times m ->
  run_model_gen O m s p pd = Ok rr ->
  length (rr_outputs O rr) = num_times m /\ Forall (fun row => length row = length (m_comps m)) (rr_outputs O rr).
Proof.
  intros W Harr Hn H. unfold run_model_gen in H.
  destruct (prepare_structural m) as [b|w]; cbn [bind] in H; [|discriminate].
  destruct (m_times m) as [[t0 t1] h] eqn:Et. cbv zeta in H.
  destruct (derived_outputs O m pd _ _ _ _) as [d|w]; cbn [bind] in H; [|discriminate]. injection H as <-.
  cbn [rr_outputs]. unfold solve_fixed.
  assert (Hlen : forall t y, length (get_comp_rates O m b p t y) = length (m_comps m)) by (intros; apply get_comp_rates_length).
  destruct (iterate_steps_shape
              ((match s with Euler => gen_euler_step O | RK4 => gen_rk4_step O end) (fun t y => get_comp_rates O m b p t y) (of_Q O h))
              (of_Q O h) (length (m_comps m))
              ltac:(intros t y Hy; destruct s; [apply euler_step_length | apply rk4_step_length]; assumption)
              (num_times m - 1) (of_Q O t0) (initial_population O m p)
              (initial_population_length m p W Harr)) as [L Fa].
  split; [rewrite L; lia | exact Fa].
Qed.

(* the model times: start + k * timestep, k = 0 .. num_times - 1 *)
Theorem times_grid (m : model) k :
  k < num_times m ->
  nth k (times_F O m) (f0 O) = let '(t0, _, h) := m_times m in of_Q O (t0 + inject_Z (Z.of_nat k) * h)%Q.
Proof.
  intro Hk. unfold times_F. destruct (m_times m) as [[t0 t1] h].
  rewrite (nth_indep _ (f0 O) (of_Q O (t0 + inject_Z (Z.of_nat 0) * h)%Q)) by (rewrite map_length, seq_length; exact Hk).
  rewrite (map_nth (fun i => of_Q O (t0 + inject_Z (Z.of_nat i) * h)%Q)). rewrite seq_nth by exact Hk. reflexivity.
Qed.

Lemma times_length (m : model) : length (times_F O m) = num_times m.
Proof. unfold times_F. destruct (m_times m) as [[t0 t1] h]. rewrite map_length, seq_length. reflexivity. Qed.

End Shape.
