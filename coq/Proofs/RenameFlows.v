(* C15: an injective renaming of the compartment names commutes with the copies a stratification makes of a flow. *)
From Coq Require Import QArith List String Bool Arith Lia Permutation.
Import ListNotations.
From S2 Require Import Base.Num Base.Arr Model.Expr Model.Struct Proofs.StratSwap.

Definition rename_opt (f : string -> string) (oc : option comp) : option comp :=
  match oc with Some c => Some (rename_comp f c) | None => None end.
Definition rename_flow (f : string -> string) (g : flow) : flow :=
  {| f_name := f_name g; f_kind := f_kind g; f_src := rename_opt f (f_src g); f_dst := rename_opt f (f_dst g);
     f_param := f_param g; f_adjs := f_adjs g |}.

Lemma opt_in_list_rename f oc l : (forall a b, f a = f b -> a = b) -> opt_in_list (rename_opt f oc) (map f l) = opt_in_list oc l.
Proof. intro Hinj. destruct oc as [c|]; [|reflexivity]. cbn. unfold has_name_in_list. cbn. apply mem_str_rename. exact Hinj. Qed.

Lemma opt_has_strata_rename f oc filt : opt_has_strata (rename_opt f oc) filt = opt_has_strata oc filt.
Proof. destruct oc as [c|]; reflexivity. Qed.

Lemma opt_strat_rename f oc n st b : opt_strat (rename_opt f oc) n st b = rename_opt f (opt_strat oc n st b).
Proof. destruct oc as [c|]; [|reflexivity]. cbn. destruct b; reflexivity. Qed.

Lemma get_flow_adjustment_rename f s s' g :
  s_fadj s' = s_fadj s -> get_flow_adjustment s' (rename_flow f g) = get_flow_adjustment s g.
Proof.
  intro E. unfold get_flow_adjustment, declared_for. rewrite E. cbn [rename_flow f_name].
  assert (A : forall e, fadj_applies (rename_flow f g) e = fadj_applies g e).
  { intros [[a sf] df]. unfold fadj_applies. cbn [rename_flow f_src f_dst]. rewrite !opt_has_strata_rename. reflexivity. }
  assert (B : forall e, fadj_invalid (rename_flow f g) e = fadj_invalid g e).
  { intros [[a sf] df]. unfold fadj_invalid. cbn [rename_flow f_src f_dst]. destruct (f_src g), (f_dst g); reflexivity. }
  assert (X : forall l, existsb (fadj_invalid (rename_flow f g)) l = existsb (fadj_invalid g) l)
    by (induction l as [|e l IH]; [reflexivity | cbn [existsb]; rewrite B, IH; reflexivity]).
  rewrite X.
  destruct (existsb _ _); [reflexivity|]. f_equal. f_equal. apply map_ext. intro e. rewrite A. reflexivity.
Qed.

Theorem renaming_commutes_with_flow_copies f s s' g :
  (forall a b, f a = f b -> a = b) ->
  s_name s' = s_name s -> s_kind s' = s_kind s -> s_strata s' = s_strata s -> s_comps s' = map f (s_comps s) -> s_fadj s' = s_fadj s ->
  stratify_flow s' (rename_flow f g)
  = match stratify_flow s g with Ok fl => Ok (map (rename_flow f) fl) | Err e => Err e end.
Proof.
  intros Hinj Hn Hk Hs Hc Hf. unfold stratify_flow.
  rewrite (get_flow_adjustment_rename f s s' g Hf). cbn [rename_flow f_kind f_src f_dst f_name f_param f_adjs].
  rewrite Hn, Hk, Hs, Hc, !(opt_in_list_rename f _ _ Hinj).
  assert (MK : forall (extra : string -> list adj) (l : list string) bs bd,
             map (fun st => {| f_name := f_name g; f_kind := f_kind g;
                               f_src := opt_strat (rename_opt f (f_src g)) (s_name s) st bs;
                               f_dst := opt_strat (rename_opt f (f_dst g)) (s_name s) st bd;
                               f_param := f_param g; f_adjs := f_adjs g ++ extra st |}) l
             = map (rename_flow f) (map (fun st => {| f_name := f_name g; f_kind := f_kind g;
                               f_src := opt_strat (f_src g) (s_name s) st bs;
                               f_dst := opt_strat (f_dst g) (s_name s) st bd;
                               f_param := f_param g; f_adjs := f_adjs g ++ extra st |}) l)).
  { intros extra l bs bd. rewrite map_map. apply map_ext. intro st. unfold rename_flow. cbn. rewrite !opt_strat_rename. reflexivity. }
  destruct (is_entry (f_kind g)).
  { destruct (negb (opt_in_list (f_dst g) (s_comps s))); [reflexivity|].
    destruct (get_flow_adjustment s g) as [[a|]|e]; cbn [bind]; try reflexivity.
    - destruct (is_birth (f_kind g) && is_age (s_kind s)); [reflexivity|]. f_equal. apply (MK (fun st => adj_for a st)).
    - destruct (is_birth (f_kind g) && is_age (s_kind s)); f_equal; [apply (MK (fun _ => [])) | apply (MK (fun _ => [AMul (inv_count (List.length (s_strata s)))]))]. }
  destruct (is_exit (f_kind g)).
  { destruct (negb (opt_in_list (f_src g) (s_comps s))); [reflexivity|].
    destruct (get_flow_adjustment s g) as [fa|e]; cbn [bind]; [|reflexivity]. f_equal.
    apply (MK (fun st => match fa with Some a => adj_for a st | None => [] end)). }
  destruct (negb (opt_in_list (f_src g) (s_comps s) || opt_in_list (f_dst g) (s_comps s))); [reflexivity|].
  destruct (get_flow_adjustment s g) as [fa|e]; cbn [bind]; [|reflexivity].
  generalize (opt_in_list (f_dst g) (s_comps s) && negb (opt_in_list (f_src g) (s_comps s)) && negb (is_strain (s_kind s))
              && match fa with None => true | Some _ => false end). intro conserve.
  rewrite (MK (fun st => if conserve then [AMul (inv_count (List.length (s_strata s)))] else match fa with Some a => adj_for a st | None => [] end)).
  destruct (f_kind g) eqn:Ek; try reflexivity.
  rewrite !map_length.
  destruct ((1 <? List.length (s_strata s)) && negb conserve); [|reflexivity].
  f_equal. rewrite !map_map. apply map_ext. intro h. reflexivity.
Qed.
