(* C15, time origin, on whole models: a model none of whose rate inputs mentions time explicitly gives the
   same compartment values when its time span is shifted; the model times shift by the same amount. *)
From Coq Require Import QArith Qcanon Field Ring List String Bool Arith Lia.
Import ListNotations.
From S2 Require Import Base.Num Base.Arr Model.Expr Model.Struct Model.Rates Model.InitPop Model.Solvers Model.Derived
     Model.Run Spec.RatesSpec Gen.SolversGen
     Proofs.ArrLemmas Proofs.NumLemmas Proofs.ExprLemmas Proofs.WeightProofs Proofs.ParamProofs Proofs.InvarianceProofs
     Proofs.RunExt Proofs.ShapeProofs.
Local Open Scope nat_scope.
Local Notation length := List.length.

(* the model with its time span moved by d *)
Definition shift_times (m : model) (d : Q) : model :=
  let '(t0, t1, h) := m_times m in
  {| m_times := ((t0 + d)%Q, (t1 + d)%Q, h); m_comps := m_comps m; m_orig := m_orig m; m_infectious := m_infectious m;
     m_flows := m_flows m; m_strats := m_strats m; m_mixcats := m_mixcats m; m_strains := m_strains m;
     m_actions := m_actions m; m_initpop := m_initpop m; m_arraypop := m_arraypop m;
     m_requests := m_requests m; m_whitelist := m_whitelist m; m_cvs := m_cvs m;
     m_defaults := m_defaults m; m_finalized := m_finalized m |}.

(* every expression the rates are computed from: flow parameters, flow adjustments, mixing matrices
   (infectiousness adjustments are evaluated once per run, without time) *)
Definition flow_exprs (f : flow) : list expr := f_param f :: map adj_expr (f_adjs f).
Definition rate_inputs (m : model) : list expr := flat_map flow_exprs (m_flows m) ++ mix_exprs m.
Definition model_time_free (m : model) : bool := forallb time_free (rate_inputs m).

Section TimeShift.
Variable O : NumOps.
Variable T : NumTheory O.
Notation F := (F O).
Notation env := (env O).

Lemma weight_time_free (p : env) t t' x f :
  forallb time_free (flow_exprs f) = true -> weight_spec O p t x f = weight_spec O p t' x f.
Proof.
  unfold flow_exprs, weight_spec. cbn [forallb]. intro H. apply andb_true_iff in H. destruct H as [Hp Ha].
  rewrite (eval_time_free O p (f_param f) Hp t t' x).
  generalize (eval O p t' x (f_param f)) as w0.
  induction (f_adjs f) as [|a l IH]; intro w0; cbn [fold_left]; [reflexivity|].
  cbn [map forallb] in Ha. apply andb_true_iff in Ha. destruct Ha as [Ha Hl].
  rewrite (IH Hl). f_equal.
  destruct a; cbn [apply_adj adj_expr] in *; rewrite (eval_time_free O p _ Ha t t' x); reflexivity.
Qed.

Lemma flow_weights_time_free (p : env) t t' x fl :
  forallb time_free (flat_map flow_exprs fl) = true -> flow_weights O p t x fl = flow_weights O p t' x fl.
Proof.
  intro H. apply (nth_ext _ _ (f0 O) (f0 O)); [rewrite !flow_weights_length; reflexivity|].
  intros i Hi. rewrite flow_weights_length in Hi.
  rewrite !(flow_weights_nth O T) by exact Hi. apply weight_time_free.
  rewrite forallb_forall in *. intros e He. apply H. apply in_flat_map. exists (nth i fl dflow).
  split; [apply nth_In; exact Hi | exact He].
Qed.

Lemma eval_matrix_time_free (p : env) t t' x mm :
  forallb time_free (List.concat mm) = true -> eval_matrix O p t x mm = eval_matrix O p t' x mm.
Proof.
  intro H. unfold eval_matrix. apply map_ext_in. intros row Hrow. apply map_ext_in. intros e He.
  apply eval_time_free. rewrite forallb_forall in H. apply H. apply in_concat. exists row. split; assumption.
Qed.

Lemma mixing_matrix_time_free m (p : env) t t' x :
  forallb time_free (mix_exprs m) = true -> mixing_matrix O m p t x = mixing_matrix O m p t' x.
Proof.
  intro H. unfold mixing_matrix.
  assert (HL : forall mm, In mm (flat_map (fun s => opt_to_list (s_mix s)) (m_strats m)) ->
                          forallb time_free (List.concat mm) = true).
  { intros mm Hmm. rewrite forallb_forall in *. intros e He. apply H.
    apply in_flat_map in Hmm. destruct Hmm as [s [Hs Hm]].
    unfold mix_exprs. apply in_flat_map. exists s. split; [exact Hs|].
    unfold opt_to_list in Hm. destruct (s_mix s) as [mm'|]; [|destruct Hm]. destruct Hm as [<-|[]]. exact He. }
  destruct (flat_map _ (m_strats m)) as [|m0 rest]; [reflexivity|].
  rewrite (eval_matrix_time_free p t t' x m0) by (apply HL; left; reflexivity).
  apply fold_left_ext_in. intros acc mm Hmm. rewrite (eval_matrix_time_free p t t' x mm); [reflexivity|].
  apply HL. right; exact Hmm.
Qed.

(* the rates of a model without explicit time dependence are the same at every time *)
Theorem get_flow_rates_time_free m b (p : env) t t' x :
  model_time_free m = true -> get_flow_rates O m b p t x = get_flow_rates O m b p t' x.
Proof.
  unfold model_time_free, rate_inputs. rewrite forallb_app. intro H. apply andb_true_iff in H. destruct H as [Hf Hm].
  unfold get_flow_rates, apply_infection, infectious_multipliers.
  rewrite (flow_weights_time_free p t t' _ (m_flows m) Hf).
  rewrite (mixing_matrix_time_free m p t t' _ Hm). reflexivity.
Qed.

Theorem get_comp_rates_time_free m b (p : env) t t' x :
  model_time_free m = true -> get_comp_rates O m b p t x = get_comp_rates O m b p t' x.
Proof. intro H. unfold get_comp_rates. rewrite (get_flow_rates_time_free m b p t t' x H). reflexivity. Qed.

(* ---- the shifted model *)
Lemma shift_num_times m d : num_times (shift_times m d) = num_times m.
Proof.
  unfold num_times, shift_times. destruct (m_times m) as [[t0 t1] h]. cbn [m_times].
  f_equal. f_equal. apply Qred_complete. unfold Qdiv. ring.
Qed.

Lemma shift_prepare m d : prepare_structural (shift_times m d) = prepare_structural m.
Proof. unfold shift_times. destruct (m_times m) as [[t0 t1] h]. reflexivity. Qed.

Lemma shift_rates m d b (p : env) t x : get_comp_rates O (shift_times m d) b p t x = get_comp_rates O m b p t x.
Proof. unfold shift_times. destruct (m_times m) as [[t0 t1] h]. reflexivity. Qed.

Lemma shift_initial m d (p : env) : initial_population O (shift_times m d) p = initial_population O m p.
Proof. unfold shift_times. destruct (m_times m) as [[t0 t1] h]. reflexivity. Qed.

Lemma shift_time_free m d : model_time_free (shift_times m d) = model_time_free m.
Proof. unfold shift_times. destruct (m_times m) as [[t0 t1] h]. reflexivity. Qed.

(* the compartment values of a run do not depend on where the time span starts *)
Theorem run_time_shift (m : model) (s : solver) (p pd pd' : env) (d : Q) r r' :
  model_time_free m = true ->
  run_model_gen O m s p pd = Ok r -> run_model_gen O (shift_times m d) s p pd' = Ok r' ->
  rr_outputs O r' = rr_outputs O r.
Proof.
  intros Htf H H'. unfold run_model_gen in H, H'.
  rewrite shift_prepare in H'.
  destruct (prepare_structural m) as [b|w]; cbn [bind] in H, H'; [|discriminate].
  rewrite shift_num_times, shift_initial in H'.
  assert (Et : m_times (shift_times m d) = let '(t0, t1, h) := m_times m in ((t0 + d)%Q, (t1 + d)%Q, h)).
  { unfold shift_times. destruct (m_times m) as [[t0 t1] h]. reflexivity. }
  destruct (m_times m) as [[t0 t1] h] eqn:Em. rewrite Et in H'. cbv zeta in H, H'.
  destruct (derived_outputs O m pd _ _ _ _) as [dd|w]; cbn [bind] in H; [|discriminate]. injection H as <-.
  destruct (derived_outputs O (shift_times m d) pd' _ _ _ _) as [dd'|w]; cbn [bind] in H'; [|discriminate]. injection H' as <-.
  cbn [rr_outputs]. unfold solve_fixed.
  transitivity (iterate_steps O
     ((match s with Euler => gen_euler_step O | RK4 => gen_rk4_step O end) (fun t y => get_comp_rates O m b p t y) (of_Q O h))
     (of_Q O h) (of_Q O (t0 + d)) (initial_population O m p) (num_times m - 1)).
  - apply iterate_steps_ext. intros t y. apply gen_steps_ext. intros t' y'. apply shift_rates.
  - apply iterate_time_shift. intros t t' y.
    destruct s; unfold gen_euler_step, gen_rk4_step; cbn zeta;
      repeat match goal with |- context [get_comp_rates O m b p ?a ?y] =>
               lazymatch a with t' => fail | _ => rewrite (get_comp_rates_time_free m b p a t' y Htf) end end; reflexivity.
Qed.

(* ... and its times are the old ones plus d *)
Theorem shifted_times_grid (m : model) (d : Q) k :
  k < num_times m ->
  nth k (times_F O (shift_times m d)) (f0 O)
  = let '(t0, _, h) := m_times m in of_Q O (t0 + d + inject_Z (Z.of_nat k) * h)%Q.
Proof.
  intro Hk. rewrite (times_grid O (shift_times m d) k) by (rewrite shift_num_times; exact Hk).
  unfold shift_times. destruct (m_times m) as [[t0 t1] h]. reflexivity.
Qed.

End TimeShift.
