(* C11 - Running is repeatable and independent of run history.
   Statements only; proofs in Proofs/ApiProofs.v.  The object model (cached runner, runner handles,
   default parameters, last results) is Model/Api.v; histories are arbitrary lists of calls. *)
From Coq Require Import QArith Qcanon List String Bool.
Import ListNotations.
From S2 Require Import Base.Num Base.Arr Model.Expr Model.Struct Model.Rates Model.Run Model.Program
     Model.Api Proofs.NumQc Proofs.ParamProofs Proofs.ApiProofs Props.Examples.

(* after any sequence of run / get_runner / runner.run / set_default_parameters calls, with any
   parameter values in between, model.run(p) - rebuilt or not - returns what a fresh object with the
   same definition and the current default parameters returns *)
Theorem C11_run_history_independent :
  forall (O : NumOps) (m : model) (s : solver) (cs : list call) (p : params) (rebuild : bool),
    uses_solver s cs ->
    snd (step O (fst (steps O (init_api O m) cs)) (CRun p s rebuild)) =
      Some (pure_run O (with_defaults_model m (current_defaults (m_defaults m) cs)) s p).
Proof. exact run_history_independent. Qed.
Print Assumptions C11_run_history_independent.

(* ... and for histories that switch solver: model.run reuses its cached runner only for the solver it was built with
   (repair of /repo recorded in known_findings.json; before it a second run asked for rk4 returned the Euler results of the
   cached runner), so after ANY history model.run(p, solver) - rebuilt or not - is the run of a fresh object with that
   solver *)
Theorem C11_run_history_independent_any_solver :
  forall (O : NumOps) (m : model) (cs : list call) (p : params) (s : solver) (rebuild : bool),
    snd (step O (fst (steps O (init_api O m) cs)) (CRun p s rebuild)) =
      Some (pure_run O (with_defaults_model m (current_defaults (m_defaults m) cs)) s p).
Proof. exact run_history_independent_any_solver. Qed.
Print Assumptions C11_run_history_independent_any_solver.

(* ... and the two statements that follow, likewise without the hypothesis on the solvers of the history *)
Theorem C11_repeatable_any_solver :
  forall (O : NumOps) (m : model) s cs1 cs2 p rb1 rb2,
    current_defaults (m_defaults m) cs1 = current_defaults (m_defaults m) (cs1 ++ cs2) ->
    snd (step O (fst (steps O (init_api O m) cs1)) (CRun p s rb1)) =
    snd (step O (fst (steps O (init_api O m) (cs1 ++ cs2))) (CRun p s rb2)).
Proof. exact repeatable_any_solver. Qed.
Print Assumptions C11_repeatable_any_solver.

Theorem C11_definition_preserved_any_solver :
  forall (O : NumOps) (m : model) cs, same_definition m (a_model (fst (steps O (init_api O m) cs))).
Proof. exact definition_preserved_any_solver. Qed.
Print Assumptions C11_definition_preserved_any_solver.

(* the same call at two points of a history gives the same result *)
Theorem C11_repeatable :
  forall (O : NumOps) (m : model) s cs1 cs2 p rb1 rb2,
    uses_solver s (cs1 ++ cs2) ->
    current_defaults (m_defaults m) cs1 = current_defaults (m_defaults m) (cs1 ++ cs2) ->
    snd (step O (fst (steps O (init_api O m) cs1)) (CRun p s rb1)) =
    snd (step O (fst (steps O (init_api O m) (cs1 ++ cs2))) (CRun p s rb2)).
Proof. exact repeatable. Qed.
Print Assumptions C11_repeatable.

(* running and building runners never alters the definition (compartments, flows, stratifications,
   requests, initial population, computed values, ...) *)
Theorem C11_definition_preserved :
  forall (O : NumOps) (m : model) s cs,
    uses_solver s cs -> same_definition m (a_model (fst (steps O (init_api O m) cs))).
Proof. exact definition_preserved. Qed.
Print Assumptions C11_definition_preserved.

(* a runner handed out by get_runner is never modified by later calls: what it returns depends on
   the runner and the parameters of the call only *)
Theorem C11_runner_history_independent :
  forall (O : NumOps) (a : api O) cs k r p,
    nth_error (a_handles a) k = Some r ->
    snd (step O (fst (steps O a cs)) (CRunnerRun k p)) = Some (runner_run O r p).
Proof. exact runner_history_independent. Qed.
Print Assumptions C11_runner_history_independent.

(* ... namely the run of the definition with the frozen parameters at their build-time values and
   the dynamic ones at their run-time values (staged_env is the meaning of ComputeGraph.freeze by
   C09_staging); the derived-output functions, whose graph is not frozen, see the same values: the
   build-time values of the non-dynamic parameters first, the run-time values for the rest (C09_derived_env_consistent) *)
Theorem C11_runner_meaning :
  forall (O : NumOps) m p0 dyn s m' r p,
    get_runner m p0 (Some dyn) s = Ok (m', r) -> missing r p = [] ->
    runner_run O r p =
      run_model_gen O m' s
        (staged_env O dyn (fun k => assoc k (p0 ++ m_defaults m')) (env_of O (p ++ m_defaults m')))
        (env_of O (filter (fun kv => negb (mem_str (fst kv) dyn)) (p0 ++ m_defaults m') ++ (p ++ m_defaults m'))).
Proof. exact runner_run_meaning. Qed.
Print Assumptions C11_runner_meaning.

(* non-vacuity: a history on the example model whose runs succeed, and whose results do depend on
   the parameter values (so the equalities above are not equalities between errors or constants) *)
Local Open Scope string_scope.
Definition ex_history : list call :=
  [CRun [("beta", 2%Q)] Euler false; CGetRunner [("beta", 3%Q)] (Some []) Euler;
   CRun [("beta", (1#2)%Q)] Euler false; CRunnerRun 0 []; CSetDefaults [("beta", 1%Q)];
   CRun [] Euler true].
Definition first_row (r : option (result (run_result QcOps))) : list Q :=
  match r with
  | Some (Ok rr) => map (fun x => this x) (List.last (rr_outputs QcOps rr) [])
  | _ => []
  end.
Example C11_nonvacuous :
  uses_solver Euler ex_history
  /\ (let outs := snd (steps QcOps (init_api QcOps ex_m2) ex_history) in
      first_row (nth 0 outs None) <> [] /\
      first_row (nth 0 outs None) <> first_row (nth 2 outs None) /\
      first_row (nth 3 outs None) <> first_row (nth 5 outs None) /\
      first_row (nth 5 outs None) <> [])
  /\ first_row (snd (step QcOps (fst (steps QcOps (init_api QcOps ex_m2) ex_history)) (CRun [("beta", 2%Q)] Euler false)))
     = first_row (nth 0 (snd (steps QcOps (init_api QcOps ex_m2) ex_history)) None).
Proof.
  split; [cbn; tauto|]. split.
  - vm_compute. repeat split; discriminate.
  - vm_compute. reflexivity.
Qed.
