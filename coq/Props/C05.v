(* C05 - Force of infection follows the mixing, strain and infectiousness definition.
   Statements only; proofs in Proofs/FoiProofs.v and Proofs/InfectiousnessProofs.v. *)
From Coq Require Import QArith Qcanon List String Bool.
Import ListNotations.
From S2 Require Import Base.Num Base.Arr Model.Expr Model.Struct Model.Rates Gen.MiscGen
     Proofs.NumQc Proofs.FoiProofs Proofs.InfectiousnessProofs Props.Examples.

(* the kernel translated from model_impl.get_force_of_infection is the model's *)
Theorem C05_kernel_is_translated :
  forall (O : NumOps) freq vals infness idx mix pops,
    gen_force_of_infection O freq vals infness idx mix pops = force_of_infection O freq vals infness idx mix pops.
Proof. intros. reflexivity. Qed.
Print Assumptions C05_kernel_is_translated.

(* for every model the backend accepts, any number of mixing stratifications, strains and
   infectious compartments: the multiplier applied to the r-th infection flow is
      sum_j M[i,j] P_j(s)        (density)      sum_j M[i,j] P_j(s) / N_j     (frequency)
   with i the mixing category of the flow's source, s the strain of its destination, P_j(s) the
   infectiousness-weighted population of the strain's infectious compartments in category j and N_j
   the population of category j.  Hypothesis: every category holds the same number k >= 1 of the
   strain's infectious compartments - what numpy's stack/reshape need to be legal (C05 names this
   as the domain: stratifications with a mixing matrix are full stratifications). *)
Theorem C05_multiplier :
  forall (O : NumOps) (m : model) (b : backend) freq (p : env O) (t : F O) (x : list (F O)) r sk ck k,
    prepare_structural m = Ok b ->
    nth_error (b_infect_strain_lookup b) r = Some sk -> nth_error (b_infect_cat_lookup b) r = Some ck ->
    (sk < List.length (m_strains m))%nat -> (ck < List.length (mixing_matrix O m p t x))%nat ->
    (0 < k)%nat -> m_mixcats m <> [] ->
    (forall cat, In cat (m_mixcats m) ->
       List.length (filter (fun c => existsb (Nat.eqb c) (strain_infectious_comps m (nth sk (m_strains m) EmptyString)))
                           (cat_members m cat)) = k) ->
    nth r (infectious_multipliers O m b freq p t x) (f0 O)
    = foi_spec O freq (mixing_matrix O m p t x) x (compartment_infectiousness O m p)
               (map (cat_members m) (m_mixcats m))
               (strain_infectious_comps m (nth sk (m_strains m) EmptyString)) ck.
Proof. exact infectious_multiplier_spec. Qed.
Print Assumptions C05_multiplier.

(* M is the Kronecker product in order of application: entry by entry, with the category index the
   mixed-radix number of the strata in that order *)
Theorem C05_kron :
  forall (O : NumOps) (a b : list (list (F O))) cb i1 i2 j1 j2,
    (forall rb, In rb b -> List.length rb = cb) ->
    (i1 < List.length a)%nat -> (i2 < List.length b)%nat -> (j1 < List.length (nth i1 a []))%nat -> (j2 < cb)%nat ->
    nth (j1 * cb + j2) (nth (i1 * List.length b + i2) (kron O a b) []) (f0 O)
    = fmul O (nth j1 (nth i1 a []) (f0 O)) (nth j2 (nth i2 b []) (f0 O)).
Proof. exact kron_entry. Qed.
Print Assumptions C05_kron.

Theorem C05_category_order :
  forall (old : list strata) (sname : string) (strata_ : list string) i1 i2,
    (i1 < List.length old)%nat -> (i2 < List.length strata_)%nat ->
    nth (i1 * List.length strata_ + i2) (flat_map (fun mc => map (fun st => mc ++ [(sname, st)]) strata_) old) []
    = nth i1 old [] ++ [(sname, nth i2 strata_ EmptyString)].
Proof. exact mixcats_order. Qed.
Print Assumptions C05_category_order.

(* the infectiousness vector used above: compartment by compartment it is the chain of the
   infectiousness adjustments that apply to the compartment (its name, and the stratum it belongs to),
   in stratification order, starting from 1: Multiply scales the running value, Overwrite replaces it
   (so an Overwrite discards what earlier stratifications did, and later ones act on top of it) *)
Theorem C05_infectiousness_chain :
  forall (O : NumOps) (p : env O) (m : model) i,
    (i < List.length (m_comps m))%nat ->
    nth i (compartment_infectiousness O m p) (f0 O) = inf_spec O p m (nth i (m_comps m) dcomp).
Proof. exact compartment_infectiousness_spec. Qed.
Print Assumptions C05_infectiousness_chain.


(* non-vacuity: example model (age mixing 2x2, infectiousness x1/2 on I young): the hypotheses hold
   with k = 1 and the multiplier of the first infection flow is the definition's value *)
Example C05_nonvacuous :
  prepare_structural ex_m = Ok ex_b
  /\ (forall cat, In cat (m_mixcats ex_m) ->
        List.length (filter (fun c => existsb (Nat.eqb c) (strain_infectious_comps ex_m "default")) (cat_members ex_m cat)) = 1%nat)
  /\ this (nth 0 (infectious_multipliers QcOps ex_m ex_b true ex_env (Q2Qc 1) ex_state) 0%Qc)
     = Qred ((1#4) * ((60 * (1#2)) / 610) + (3#8) * (40 / 390))%Q.
Proof.
  split; [exact ex_backend_ok|]. split.
  - intros cat Hin. vm_compute in Hin. destruct Hin as [<-|[<-|[]]]; vm_compute; reflexivity.
  - vm_compute. reflexivity.
Qed.
