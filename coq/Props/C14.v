(* C14 - Pruning derived outputs never changes the values of those that are kept.
   Statements only; proofs in Proofs/DerivedProofs.v and Proofs/OrderIndep.v. *)
From Coq Require Import QArith Qcanon List String Bool.
Import ListNotations.
From S2 Require Import Base.Num Base.Arr Model.Expr Model.Struct Model.Derived Model.Program Model.Run
     Proofs.NumQc Proofs.DerivedProofs Proofs.OrderIndep Props.Examples.

(* the request list of every model the API can build declares sources before their users and has
   distinct names *)
Theorem C14_requests_well_ordered :
  forall t0 t1 h comps inf ops m, build_ok t0 t1 h comps inf ops = Some m -> well_ordered (m_requests m).
Proof. exact wo_build. Qed.
Print Assumptions C14_requests_well_ordered.

(* the set that a whitelist keeps (targets and their ancestors) is closed under "source of" *)
Theorem C14_filter_keeps_ancestors :
  forall reqs wl, well_ordered reqs -> source_closed reqs (needed_for reqs wl).
Proof. exact needed_for_closed. Qed.
Print Assumptions C14_filter_keeps_ancestors.

(* every whitelisted output has exactly the value it has when everything is computed, for every
   request graph, every whitelist, including outputs whose sources are pruned from the results *)
Theorem C14_whitelist :
  forall (O : NumOps) (m : model) (p : string -> F O) (ntimes : nat) (outputs flows : list (list (F O)))
         (cvs : list (string * list (F O))) reqs wl acc_all acc_wl,
    well_ordered reqs ->
    eval_requests O m p ntimes outputs flows cvs (req_names reqs) reqs [] = Ok acc_all ->
    eval_requests O m p ntimes outputs flows cvs (needed_for reqs wl) reqs [] = Ok acc_wl ->
    forall k, In k wl -> lookup_series O k acc_wl = lookup_series O k acc_all.
Proof. exact whitelist_preserves_values. Qed.
Print Assumptions C14_whitelist.

(* the save flag and the full-outputs switch only select which keys are returned: the value map
   they select from does not depend on them (derived_outputs evaluates with needed = all names
   and then projects on the saved keys) *)
Theorem C14_save_flag :
  forall (O : NumOps) (m : model) (p : string -> F O) (ntimes : nat) (outputs flows : list (list (F O)))
         (cvs : list (string * list (F O))) d,
    m_whitelist m = [] ->
    derived_outputs O m p ntimes outputs flows cvs = Ok d ->
    exists acc, eval_requests O m p ntimes outputs flows cvs (map fst (m_requests m)) (m_requests m) [] = Ok acc
                /\ d = map (fun k => (k, lookup_series O k acc))
                           (map fst (filter (fun nr => snd (snd nr)) (m_requests m))).
Proof.
  intros O m p ntimes outputs flows cvs d Hwl H. unfold derived_outputs in H. rewrite Hwl in H.
  cbv zeta in H. unfold bind in H.
  repeat match type of H with context [guard ?c _] => destruct c; cbn [guard] in H; [|discriminate] end.
  destruct (eval_requests O m p ntimes outputs flows cvs (map fst (m_requests m)) (m_requests m) []) as [acc|] eqn:E; [|discriminate].
  injection H as <-. exists acc. split; reflexivity.
Qed.
Print Assumptions C14_save_flag.

(* the order in which requests are declared does not affect any value: two declaration orders of
   the same requests (each declaring sources before their users, as the API enforces) evaluate every
   request to the same series - for any number of requests of any kind *)
Theorem C14_declaration_order :
  forall (O : NumOps) (m : model) (p : string -> F O) (ntimes : nat) (outputs flows : list (list (F O)))
         (cvs : list (string * list (F O))) reqs1 reqs2 r1 r2,
    well_ordered reqs1 -> well_ordered reqs2 ->
    (forall x, In x reqs1 <-> In x reqs2) ->
    eval_requests O m p ntimes outputs flows cvs (req_names reqs1) reqs1 [] = Ok r1 ->
    eval_requests O m p ntimes outputs flows cvs (req_names reqs2) reqs2 [] = Ok r2 ->
    forall name, In name (req_names reqs1) -> lookup_series O name r1 = lookup_series O name r2.
Proof. exact declaration_order_irrelevant. Qed.
Print Assumptions C14_declaration_order.

(* non-vacuity: on the example model, whitelisting "total" (an aggregate of two other outputs)
   returns the same series as the full evaluation *)
Definition qs (o : option (list Qc)) : option (list Q) := option_map (map this) o.

Example C14_nonvacuous :
  well_ordered (m_requests ex_m)
  /\ match run_model QcOps ex_m2 Euler ex_env, run_model QcOps (set_whitelist ex_m2 ["total"%string]) Euler ex_env with
     | Ok a, Ok b => (qs (assoc "total"%string (rr_derived QcOps a)) = qs (assoc "total"%string (rr_derived QcOps b))
                      /\ List.length (rr_derived QcOps b) = 1%nat /\ List.length (rr_derived QcOps a) = 4%nat)
     | _, _ => False
     end.
Proof.
  split; [exact (wo_build _ _ _ _ _ _ _ ex_build_ok)|].
  vm_compute. split; [reflexivity|]. split; reflexivity.
Qed.
