(* C16 - The time-function library computes the interpolants it documents.
   Statements only; proofs in Proofs/TimeFnProofs.v and Proofs/RollingProofs.v.  gen_* are regenerated
   from /repo/summer2/functions/util.py, interpolate.py and derived.py on every run (the rolling helpers
   as templates over Model/Rolling.v that are emitted only when the source statements match). *)
From Coq Require Import QArith ZArith Qcanon List Bool Lia.
Import ListNotations.
From S2 Require Import Base.Num Base.Arr Base.ZArr Model.Expr Model.Rolling Gen.UtilGen Gen.InterpolateGen Gen.RollingGen
     Proofs.NumQc Proofs.OrderLemmas Proofs.TimeFnProofs Proofs.RollingProofs.

(* the binary search returns #{i | points[i] <= x} for every sorted array of any length >= 1 and
   every x, and its loop terminates within len(points) iterations (the fuel of the model) *)
Theorem C16_bsearch :
  forall (O : NumOps) (T : NumTheory O) (pts : list (F O)) (x : F O),
    sorted O T pts -> (1 <= List.length pts)%nat ->
    gen_binary_search_sum_ge O x pts = Z.of_nat (count_le O x pts).
Proof. exact binary_search_correct. Qed.
Print Assumptions C16_bsearch.

(* piecewise function: values[k], k = number of breakpoints <= x (left-closed intervals) *)
Theorem C16_piecewise :
  forall (O : NumOps) (T : NumTheory O) (x : F O) (bps vals : list (F O)),
    sorted O T bps -> (1 <= List.length bps)%nat ->
    gen_piecewise_constant O x bps vals = get_clamp (f0 O) vals (count_le O x bps).
Proof. exact piecewise_correct. Qed.
Print Assumptions C16_piecewise.

(* linear interpolation = piecewise-linear interpolant, constant outside, exact at the last point *)
Theorem C16_linear :
  forall (O : NumOps) (T : NumTheory O) (t : F O) (xs ys : list (F O)),
    strictly_sorted O T xs -> (2 <= List.length xs)%nat -> List.length ys = List.length xs ->
    gen_interpolate_linear O t xs ys = interp_linear O t xs ys.
Proof. exact linear_correct. Qed.
Print Assumptions C16_linear.

(* both interpolators on a segment: y_i + sig(relative position) * (y_(i+1) - y_i) *)
Theorem C16_segment :
  forall (O : NumOps) (T : NumTheory O) (sig : F O -> F O) (t : F O) (xs ys : list (F O)) (i : nat),
    strictly_sorted O T xs -> (S i < List.length xs)%nat -> List.length ys = List.length xs ->
    flt O T (nth 0 xs (f0 O)) t -> fle O T (nth i xs (f0 O)) t -> flt O T t (nth (S i) xs (f0 O)) ->
    gen_interpolate_sigmoidal O sig t xs ys
    = fadd O (nth i ys (f0 O))
             (fmul O (sig (fdiv O (fsub O t (nth i xs (f0 O))) (fsub O (nth (S i) xs (f0 O)) (nth i xs (f0 O)))))
                     (fsub O (nth (S i) ys (f0 O)) (nth i ys (f0 O)))).
Proof. exact sigmoidal_segment. Qed.
Print Assumptions C16_segment.

Theorem C16_constant_outside :
  forall (O : NumOps) (T : NumTheory O) (sig : F O -> F O) (t : F O) (xs ys : list (F O)),
    strictly_sorted O T xs -> (2 <= List.length xs)%nat -> List.length ys = List.length xs ->
    (fle O T t (nth 0 xs (f0 O)) -> gen_interpolate_sigmoidal O sig t xs ys = nth 0 ys (f0 O))
    /\ (flt O T (nth (List.length xs - 1) xs (f0 O)) t ->
        gen_interpolate_sigmoidal O sig t xs ys = nth (List.length xs - 1) ys (f0 O)).
Proof. exact sigmoidal_outside. Qed.
Print Assumptions C16_constant_outside.

Theorem C16_through_points :
  forall (O : NumOps) (T : NumTheory O) (sig : F O -> F O) (xs ys : list (F O)) (k : nat),
    sig (f0 O) = f0 O ->
    strictly_sorted O T xs -> (S k < List.length xs)%nat -> (1 <= k)%nat -> List.length ys = List.length xs ->
    gen_interpolate_sigmoidal O sig (nth k xs (f0 O)) xs ys = nth k ys (f0 O).
Proof. exact sigmoidal_through_points. Qed.
Print Assumptions C16_through_points.

(* a shape function with values in [0,1] keeps the curve within the two neighbouring values *)
Theorem C16_within_neighbours :
  forall (O : NumOps) (T : NumTheory O) (a b s : F O),
    fle O T (f0 O) s -> fle O T s (f1 O) -> fle O T a b ->
    fle O T a (fadd O a (fmul O s (fsub O b a))) /\ fle O T (fadd O a (fmul O s (fsub O b a))) b.
Proof. exact convex_between. Qed.
Print Assumptions C16_within_neighbours.

Theorem C16_norm_sigmoid_zero :
  forall (O : NumOps) (T : NumTheory O) (fexp : F O -> F O) (c : F O), gen_norm_sigmoid O fexp c (f0 O) = f0 O.
Proof. exact norm_sigmoid_0. Qed.
Print Assumptions C16_norm_sigmoid_zero.

(* the difference helper is pandas.Series.diff(periods): NaN (None) for the first `periods` entries,
   then x[i] - x[i - periods]; the rolling-window helper is pandas.Series.rolling(window).agg(func):
   NaN for the first window - 1 entries, then func of the window ending at i - for every series,
   period / window >= 1 and reduction function *)
Theorem C16_rolling_diff :
  forall (O : NumOps) periods (x : list (F O)) i d,
    (1 <= periods)%nat -> (i < List.length x)%nat ->
    nth i (gen_rolling_diff O periods x) None
    = if (i <? periods)%nat then None else Some (fsub O (nth i x d) (nth (i - periods) x d)).
Proof. exact rolling_diff_spec. Qed.
Print Assumptions C16_rolling_diff.

(* zero and negative periods (pandas.Series.diff(-k), k >= 0; the code negates them on the way to this helper):
   x[i] - x[i + k] while i + k is inside the series, NaN for the last k entries - for every series and k *)
Theorem C16_rolling_diff_backward :
  forall (O : NumOps) k (x : list (F O)) i d,
    (i < List.length x)%nat ->
    nth i (gen_rolling_diff_backward O k x) None
    = if (i + k <? List.length x)%nat then Some (fsub O (nth i x d) (nth (i + k) x d)) else None.
Proof. exact rolling_diff_backward_spec. Qed.
Print Assumptions C16_rolling_diff_backward.

Theorem C16_rolling_reduction :
  forall (O : NumOps) (func : list (F O) -> F O) window (x : list (F O)) i,
    (1 <= window)%nat -> (i < List.length x)%nat ->
    nth i (gen_rolling_reduction O func window x) None
    = if (i <? window - 1)%nat then None else Some (func (firstn window (skipn (i - (window - 1)) x))).
Proof. exact rolling_reduction_spec. Qed.
Print Assumptions C16_rolling_reduction.

(* partial: the limit "sigmoidal -> linear as the curvature goes to zero", monotonicity of the real
   sigmoid and sig 1 = 1 need the real exponential; they are sampled by the oracle (DESIGN 6.16) *)

(* non-vacuity: breakpoints 1,3,5, values 10,20,30,40 *)
Example C16_nonvacuous :
  sorted QcOps QcTheory (map Q2Qc [1;3;5]%Q)
  /\ map (fun x => gen_piecewise_constant QcOps (Q2Qc x) (map Q2Qc [1;3;5]%Q) (map Q2Qc [10;20;30;40]%Q))
         [0; 1; 2; 3; 5; 6]%Q = map Q2Qc [10; 20; 20; 30; 40; 40]%Q
  /\ gen_interpolate_linear QcOps (Q2Qc 2) (map Q2Qc [1;3;5]%Q) (map Q2Qc [10;20;40]%Q) = Q2Qc 15.
Proof.
  split.
  - intros i j Hij Hj. cbn in Hj.
    destruct i as [|[|[|i]]], j as [|[|[|j]]]; try lia; cbn; unfold Qcle; cbn; try discriminate; lia.
  - split; vm_compute; reflexivity.
Qed.
