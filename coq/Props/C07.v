(* C07 - Every solver returns the solution of the model's ODE at the requested times.
   Statements only; proofs in Proofs/SolversProofs.v.  gen_* are the definitions the translator
   regenerates from /repo/summer2/runner/jax/solvers.py and ode.py on every run. *)
From Coq Require Import QArith Qcanon List Bool.
Import ListNotations.
From S2 Require Import Base.Num Base.Arr Model.Solvers Gen.SolversGen Gen.OdeGen
     Proofs.NumQc Proofs.SolversProofs.

(* the translated step bodies are the classical Euler and RK4 updates with step = timestep,
   for every right-hand side, state and timestep (not only timestep = 1) *)
Theorem C07_euler_is_classical :
  forall (O : NumOps) (f : rhs O) (h t : F O) (y : list (F O)),
    gen_euler_step O f h t y = vadd O y (vscale O h (f t y)).
Proof. intros. reflexivity. Qed.
Print Assumptions C07_euler_is_classical.

Theorem C07_rk4_is_classical :
  forall (O : NumOps) (T : NumTheory O) (f : rhs O) (h t : F O) (y : list (F O)),
    gen_rk4_step O f h t y =
    let h2 := fdiv O h (two O) in
    let k1 := f t y in
    let k2 := f (fadd O t h2) (vadd O y (vscale O h2 k1)) in
    let k3 := f (fadd O t h2) (vadd O y (vscale O h2 k2)) in
    let k4 := f (fadd O t h) (vadd O y (vscale O h k3)) in
    vadd O y (vscale O (fdiv O h (six O)) (vadd O (vadd O (vadd O k1 (vscale O (two O) k2)) (vscale O (two O) k3)) k4)).
Proof. exact gen_rk4_is_classical. Qed.
Print Assumptions C07_rk4_is_classical.

(* consequences that expose any scaling error for every h <> 1:
   the linear test equation and exact quadrature of cubics (Simpson) *)
Theorem C07_euler_linear :
  forall (O : NumOps) (T : NumTheory O) (lam h t y : F O),
    gen_euler_step O (lin O lam) h t [y] = [fmul O y (fadd O (f1 O) (fmul O h lam))].
Proof. exact euler_linear. Qed.
Print Assumptions C07_euler_linear.

Theorem C07_rk4_linear :
  forall (O : NumOps) (T : NumTheory O) (lam h t y : F O),
    let z := fmul O h lam in
    gen_rk4_step O (lin O lam) h t [y]
    = [fmul O y (fadd O (fadd O (fadd O (fadd O (f1 O) z) (fdiv O (fmul O z z) (two O)))
                              (fdiv O (fmul O (fmul O z z) z) (six O)))
                      (fdiv O (fmul O (fmul O (fmul O z z) z) z) (fmul O (six O) (fmul O (two O) (two O)))))].
Proof. exact rk4_linear. Qed.
Print Assumptions C07_rk4_linear.

Theorem C07_rk4_quadrature :
  forall (O : NumOps) (T : NumTheory O) (a b c d h t y : F O),
    let P := fun s => fadd O (fadd O (fadd O (fmul O a s) (fdiv O (fmul O b (fmul O s s)) (two O)))
                                   (fdiv O (fmul O c (fmul O (fmul O s s) s)) (fadd O (two O) (f1 O))))
                         (fdiv O (fmul O d (fmul O (fmul O (fmul O s s) s) s)) (fmul O (two O) (two O))) in
    gen_rk4_step O (cubic O a b c d) h t [y] = [fadd O y (fsub O (P (fadd O t h)) (P t))].
Proof. exact rk4_quadrature. Qed.
Print Assumptions C07_rk4_quadrature.

(* row 0 is exactly the initial state and row i+1 is one step from row i at time t0 + i*h *)
Theorem C07_rows :
  forall (O : NumOps) (T : NumTheory O) (step : rhs O -> F O -> F O -> list (F O) -> list (F O))
         (f : rhs O) (t0 h : F O) (y0 : list (F O)) (n i : nat) d,
    nth 0 (solve_fixed O step f t0 h y0 n) d = y0
    /\ List.length (solve_fixed O step f t0 h y0 n) = S n
    /\ ((i < n)%nat ->
        nth (S i) (solve_fixed O step f t0 h y0 n) d
        = step f h (fadd O t0 (fmul O (of_nat_F O i) h)) (nth i (solve_fixed O step f t0 h y0 n) d)).
Proof.
  intros O T step f t0 h y0 n i d. unfold solve_fixed. split; [apply iterate_steps_row0|].
  split; [apply iterate_steps_length|]. intro Hi.
  rewrite (iterate_steps_succ O (step f h) h n t0 y0 i d Hi), (time_at_affine O T). reflexivity.
Qed.
Print Assumptions C07_rows.

(* Dormand-Prince (the default adaptive solver): the translated tableau satisfies all 17 order
   conditions up to order 5, its embedded weights those up to order 4, nodes = row sums, FSAL,
   error weights sum to 0 (the domain of these identities is the finite table: vm_compute is a proof) *)
Theorem C07_dopri_order_conditions :
  all_hold (order5_conditions dp_c_sol) = true
  /\ all_hold (order4_conditions dp_b4) = true
  /\ qeqb_list (map qsumq dp_beta) (firstn 6 dp_alpha) = true
  /\ qeqb_list (nth 5 dp_beta []) dp_c_sol = true
  /\ Qeq_bool (qsumq dp_c_error) 0 = true
  /\ Qeq_bool (qsumq dp_c_mid) (1#2) = true.
Proof.
  split; [exact dp_order5|]. split; [exact dp_embedded_order4|]. split; [exact dp_row_sums|].
  split; [exact dp_fsal|]. split; [exact dp_error_sum|exact dp_mid_sum].
Qed.
Print Assumptions C07_dopri_order_conditions.

(* the dense-output polynomial used to report the requested times interpolates the accepted step *)
Theorem C07_dense_output_interpolates :
  forall (O : NumOps) (T : NumTheory O) (y0 y1 y_mid dy0 dy1 dt : F O),
    let co := gen_fit_4th_order_polynomial O y0 y1 y_mid dy0 dy1 dt in
    poly4 O co (f0 O) = y0 /\ poly4 O co (f1 O) = y1
    /\ dpoly4 O co (f0 O) = fmul O dt dy0 /\ dpoly4 O co (f1 O) = fmul O dt dy1
    /\ poly4 O co (fdiv O (f1 O) (fadd O (f1 O) (f1 O))) = y_mid.
Proof. exact dense_output_interpolates. Qed.
Print Assumptions C07_dense_output_interpolates.

(* non-vacuity: y' = -y/2, h = 1/2, y = 100: one RK4 step gives 39875/512 (and not the value of
   the unscaled formula), computed on the generated definition *)
Example C07_nonvacuous :
  gen_rk4_step QcOps (lin QcOps (Q2Qc (-1#2))) (Q2Qc (1#2)) (Q2Qc 0) [Q2Qc 100] = [Q2Qc (39875#512)].
Proof. vm_compute. reflexivity. Qed.
