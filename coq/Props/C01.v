(* C01 - Compartment rates of change follow the documented per-flow rate laws.
   Statements only; proofs are in Proofs/RatesProofs.v and Proofs/WeightProofs.v. *)
From Coq Require Import QArith Qcanon List String Bool.
Import ListNotations.
From S2 Require Import Base.Num Base.Arr Model.Expr Model.Struct Model.Rates Model.Program
     Spec.RatesSpec Proofs.NumQc Proofs.WeightProofs Proofs.RatesProofs Proofs.CleanProofs Props.Examples.

(* every flow's rate is the documented law of its kind, with the weight = parameter with its
   adjustments applied, evaluated at this time and the cleaned state - for every model the
   backend accepts, every parameter environment, time and state, over any ordered field *)
Theorem C01_flow_rates :
  forall (O : NumOps) (T : NumTheory O) (m : model) (b : backend) (p : env O) (t : F O) (x0 : list (F O)),
    prepare_structural m = Ok b ->
    get_flow_rates O m b p t x0
    = map (fun jf => flow_rate_spec O m p t (vclean O x0) (muls_of O m b p t x0) (fst jf) (snd jf))
          (enumerate (m_flows m)).
Proof. exact flow_rates_spec. Qed.
Print Assumptions C01_flow_rates.

(* each compartment's rate of change = sum of inflows minus sum of outflows *)
Theorem C01_comp_rates :
  forall (O : NumOps) (T : NumTheory O) (m : model) (b : backend) (p : env O) (t : F O) (x0 : list (F O)),
    prepare_structural m = Ok b ->
    get_comp_rates O m b p t x0
    = map (comp_rate_spec O m (get_flow_rates O m b p t x0)) (seq 0 (List.length (m_comps m))).
Proof.
  intros O T m b p t x0 Hb. unfold get_comp_rates.
  exact (comp_rates_spec O T m b _ Hb (get_flow_rates_length O m b p t x0 Hb)).
Qed.
Print Assumptions C01_comp_rates.

(* the weight realised by the runner (shared keys, static/time-varying scatter) is the
   documented adjustment chain, for every flow *)
Theorem C01_weights :
  forall (O : NumOps) (T : NumTheory O) (p : env O) (t : F O) (x : list (F O)) (fl : list flow) (i : nat),
    (i < List.length fl)%nat ->
    nth i (flow_weights O p t x fl) (f0 O) = weight_spec O p t x (nth i fl dflow).
Proof. exact flow_weights_nth. Qed.
Print Assumptions C01_weights.

(* negative compartment values count as zero: flow and compartment rates at a state are those at the state with its
   negative entries replaced by zero (and the i-th entry of that state is 0 or the entry itself) - every model,
   backend, parameter environment, time and state *)
Theorem C01_negative_counts_as_zero :
  forall (O : NumOps) (T : NumTheory O) (m : model) (b : backend) (p : env O) (t : F O) (x0 : list (F O)),
    get_flow_rates O m b p t x0 = get_flow_rates O m b p t (vclean O x0)
    /\ get_comp_rates O m b p t x0 = get_comp_rates O m b p t (vclean O x0)
    /\ forall i, (i < List.length x0)%nat ->
         nth i (vclean O x0) (f0 O) = if fltb O (nth i x0 (f0 O)) (f0 O) then f0 O else nth i x0 (f0 O).
Proof.
  intros O T m b p t x0.
  exact (conj (flow_rates_clean O T m b p t x0) (conj (comp_rates_clean O T m b p t x0) (vclean_nth O x0))).
Qed.
Print Assumptions C01_negative_counts_as_zero.

(* non-vacuity: the hypothesis is met by a concrete stratified model, and the theorem's two
   sides compute to the same non-trivial vector there *)
Example C01_nonvacuous :
  prepare_structural ex_m = Ok ex_b /\ List.length (m_flows ex_m) = 14%nat
  /\ get_flow_rates QcOps ex_m ex_b ex_env (Q2Qc 1) ex_state
      = map (fun jf => flow_rate_spec QcOps ex_m ex_env (Q2Qc 1) (vclean QcOps ex_state)
                         (muls_of QcOps ex_m ex_b ex_env (Q2Qc 1) ex_state) (fst jf) (snd jf))
            (enumerate (m_flows ex_m))
  /\ nth 0 (get_flow_rates QcOps ex_m ex_b ex_env (Q2Qc 1) ex_state) 0%Qc <> 0%Qc.
Proof.
  split; [exact ex_backend_ok|]. split; [vm_compute; reflexivity|].
  split; [apply (C01_flow_rates QcOps QcTheory); exact ex_backend_ok|].
  vm_compute. discriminate.
Qed.
