(* C17 - Ill-formed model definitions are rejected instead of silently simulated.
   Statements only; proofs in Proofs/RejectProofs.v.  Every lemma is quantified over the context m
   (the model built so far): no valid context lets the defect through. *)
From Coq Require Import QArith List String Bool.
Import ListNotations.
From S2 Require Import Base.Num Base.Arr Model.Expr Model.Struct Model.Program Proofs.RejectProofs Props.Examples.

Theorem C17_times :
  forall t0 t1 h comps inf,
    (Qle_bool t1 t0 = true \/ q_is_int (1 + (t1 - t0) / h)%Q = false \/ forallb (fun n => mem_str n comps) inf = false) ->
    rejected (new_model t0 t1 h comps inf).
Proof.
  intros t0 t1 h comps inf [H|[H|H]];
    [apply reject_times_order|apply reject_timestep_not_dividing|apply reject_unknown_infectious]; exact H.
Qed.
Print Assumptions C17_times.

Theorem C17_population :
  forall m dist,
    (forallb (fun kv => mem_str (fst kv) (m_orig m)) dist = false \/ m_strats m <> []) ->
    rejected (set_initial_population m dist).
Proof.
  intros m dist [H|H]; [apply reject_unknown_population_compartment|apply reject_population_after_stratification]; exact H.
Qed.
Print Assumptions C17_population.

Theorem C17_second_birth_flow :
  forall m k name param src dst sf df expected split,
    is_birth k = true -> has_birth_flow m = true ->
    rejected (add_flow m (FlowSpec k name param src dst sf df expected split)).
Proof. exact reject_second_birth_flow. Qed.
Print Assumptions C17_second_birth_flow.

Theorem C17_unknown_flow_compartment :
  forall m k name param src dst sf df expected,
    is_entry k = false -> is_exit k = false ->
    (existsb (fun c => String.eqb src (c_name c)) (m_comps m) = false \/ existsb (fun c => String.eqb dst (c_name c)) (m_comps m) = false) ->
    rejected (add_flow m (FlowSpec k name param src dst sf df expected false)).
Proof. exact reject_unknown_transition_compartment. Qed.
Print Assumptions C17_unknown_flow_compartment.

Theorem C17_unequal_source_dest :
  forall m k name param src dst sf df expected srcs dests,
    is_entry k = false -> is_exit k = false ->
    matching_comps m src sf = Ok srcs -> matching_comps m dst df = Ok dests -> List.length dests <> List.length srcs ->
    rejected (add_flow m (FlowSpec k name param src dst sf df expected false)).
Proof. exact reject_unequal_source_dest. Qed.
Print Assumptions C17_unequal_source_dest.

Theorem C17_flow_count :
  forall m k name param dst df n,
    is_entry k = true -> is_birth k = false ->
    n <> List.length (filter (fun c => is_match c dst df) (m_comps m)) ->
    rejected (add_flow m (FlowSpec k name param EmptyString dst [] df (Some n) false)).
Proof. exact reject_flow_count. Qed.
Print Assumptions C17_flow_count.

Theorem C17_duplicate_universal_death :
  forall m name param, existsb (fun f => String.eqb (f_name f) name) (m_flows m) = true ->
    rejected (add_universal_death m name param).
Proof. exact reject_duplicate_universal_death. Qed.
Print Assumptions C17_duplicate_universal_death.

(* stratification objects that omit strata in adjustments / infectiousness adjustments / literal
   splits, negative or non-normalised literal splits, a mixing matrix on a strain stratification *)
Theorem C17_stratification_object :
  forall m s,
    (forallb (fun ne => set_eq_str (map fst (fst (fst (snd ne)))) (s_strata s)) (s_fadj s) = false
     \/ forallb (fun ce => set_eq_str (map fst (snd ce)) (s_strata s)) (s_iadj s) = false
     \/ (exists mm, is_strain (s_kind s) = true /\ s_mix s = Some mm)
     \/ (exists qs, s_split s <> [] /\ all_literal (s_split s) = Some qs /\
                    (set_eq_str (map fst (s_split s)) (s_strata s) = false \/ forallb (fun q => Qle_bool 0 q) qs = false
                     \/ qabs_lt (1 - qsum qs)%Q (1 # 100) = false))) ->
    rejected (stratify_with m s).
Proof.
  intros m s [H|[H|[[mm [H1 H2]]|[qs [H1 [H2 H3]]]]]].
  - apply reject_adjustment_missing_strata; exact H.
  - apply reject_infectiousness_missing_strata; exact H.
  - eapply reject_strain_mixing; eassumption.
  - eapply reject_bad_literal_split; eassumption.
Qed.
Print Assumptions C17_stratification_object.

Theorem C17_stratify_with :
  forall m s0, validate_strat_object s0 = Ok tt ->
    let s := normalise_strat s0 in
    (mem_str (s_name s) (strat_names m) = true
     \/ forallb (fun ne => existsb (fun f => String.eqb (f_name f) (fst ne)) (m_flows m)) (s_fadj s) = false
     \/ forallb (fun ne => let '(_, sf, df) := snd ne in strata_exist m sf && strata_exist m df) (s_fadj s) = false
     \/ forallb (fun ce => mem_str (fst ce) (m_orig m)) (s_iadj s) = false
     \/ (exists mm, s_mix s = Some mm /\ set_eq_str (s_comps s) (m_orig m) = false)
     \/ (is_strain (s_kind s) = true /\ existsb (fun s' => is_strain (s_kind s')) (m_strats m) = true)
     \/ forallb (fun c => mem_str c (m_orig m)) (s_comps s) = false
     \/ (is_age (s_kind s) = true /\ existsb (fun s' => is_age (s_kind s')) (m_strats m) = true)
     \/ (is_age (s_kind s) = true /\ set_eq_str (s_comps s) (m_orig m) = false)) ->
    rejected (stratify_with m s0).
Proof.
  intros m s0 Hv s [H|[H|[H|[H|[[mm [H1 H2]]|[[H1 H2]|[H|[[H1 H2]|[H1 H2]]]]]]]]].
  - apply reject_duplicate_stratification; assumption.
  - apply reject_adjusting_unknown_flow; assumption.
  - apply reject_unknown_filter_strata; assumption.
  - apply reject_infectiousness_unknown_compartment; assumption.
  - eapply reject_mixing_on_partial; eassumption.
  - apply reject_second_strain; assumption.
  - apply reject_stratify_unknown_compartment; assumption.
  - apply reject_second_age; assumption.
  - apply reject_age_on_partial; assumption.
Qed.
Print Assumptions C17_stratify_with.

Theorem C17_output_requests :
  forall m name save,
    (has_request m name = true -> forall r, rejected (request_output m name r save))
    /\ (forall srcs, forallb (has_request m) srcs = false -> rejected (request_output m name (RAgg srcs) save))
    /\ (forall src st, has_request m src = false -> rejected (request_output m name (RCum src st) save))
    /\ (forall fn srcs ps, forallb (has_request m) srcs = false -> rejected (request_output m name (RFunc fn srcs ps) save))
    /\ (forall fname sf df raw, existsb (fun f => flow_is_match f fname sf df) (m_flows m) = false ->
                                rejected (request_output m name (RFlow fname sf df raw) save))
    /\ (forall names filt, existsb (fun c => existsb (fun n => is_match c n filt) names) (m_comps m) = false ->
                           rejected (request_output m name (RComp names filt) save)).
Proof.
  intros m name save. repeat split; intros.
  - apply reject_duplicate_output; assumption.
  - apply reject_unknown_output_source; assumption.
  - apply reject_unknown_cumulative_source; assumption.
  - apply reject_unknown_function_source; assumption.
  - apply reject_output_for_unknown_flow; assumption.
  - apply reject_output_for_unknown_compartment; assumption.
Qed.
Print Assumptions C17_output_requests.

(* once finalised (by running), every flow-adding, stratifying, population-setting and
   output-requesting call is refused, whatever its arguments *)
Theorem C17_finalized :
  forall m o, m_finalized m = true -> changes_definition o = true -> m_orig m <> [] -> rejected (apply_op m o).
Proof. exact finalized_refuses. Qed.
Print Assumptions C17_finalized.

(* ... and stays refused after any further accepted calls (whitelists, computed values, finalize,
   set_default_parameters): finalisation is one-way *)
Theorem C17_finalized_forever :
  forall ops m k m' o,
    m_finalized m = true -> m_orig m <> [] -> apply_ops m ops k = (m', None) ->
    changes_definition o = true -> rejected (apply_op m' o).
Proof. exact finalized_refuses_forever. Qed.
Print Assumptions C17_finalized_forever.

(* a flow rate that is neither a number nor a graph object (a string, None, a list, ...) is refused by every
   flow-adding call that takes a rate, on every model and whatever the other arguments; a number or a graph
   object is handed on unchanged to the typed call *)
Theorem C17_rate_type :
  (forall m v fs, is_rate v = false -> fs_kind fs <> KRepl -> rejected (apply_op m (OpFlowDyn v fs)))
  /\ (forall m name v, is_rate v = false -> rejected (apply_op m (OpUDeathDyn name v)))
  /\ (forall m e fs, apply_op m (OpFlowDyn (PyGraph e) (with_param fs e)) = apply_op m (OpFlow (with_param fs e)))
  /\ (forall m q fs, apply_op m (OpFlowDyn (PyNum q) (with_param fs (EConst q))) = apply_op m (OpFlow (with_param fs (EConst q)))).
Proof.
  split; [exact reject_bad_rate|]. split; [exact reject_bad_rate_udeath|].
  split; [exact good_rate_is_typed_call | exact number_rate_is_constant].
Qed.
Print Assumptions C17_rate_type.

(* non-vacuity: valid programs are accepted (the example builds), and a second birth flow on it is refused *)
Example C17_nonvacuous :
  ex_model = Some ex_m /\ has_birth_flow ex_m = true
  /\ rejected (add_flow ex_m (FlowSpec KCrude "b2" (EConst 1) "" "S" [] [] None false)).
Proof.
  split; [exact ex_model_ok|]. split; [vm_compute; reflexivity|].
  apply reject_second_birth_flow; [reflexivity | vm_compute; reflexivity].
Qed.

Example C17_rate_nonvacuous :
  rejected (apply_op ex_m (OpFlowDyn (PyStr "0.3") (FlowSpec KTrans "rec2" (EConst 0) "I" "R" [] [] None false)))
  /\ (exists m', apply_op ex_m (OpFlowDyn (PyNum (3#10)) (FlowSpec KTrans "rec2" (EConst 0) "I" "R" [] [] None false)) = Ok m').
Proof.
  split; [apply reject_bad_rate; [reflexivity | discriminate]|].
  vm_compute. eexists; reflexivity.
Qed.
