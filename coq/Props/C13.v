(* C13 - Name-and-strata selection means: name equal and strata contain the filter.
   Statements only; proofs in Proofs/SelectProofs.v (+ the invariant of Proofs/BuildProofs.v). *)
From Coq Require Import QArith List String Bool.
Import ListNotations.
From S2 Require Import Base.Num Base.Arr Model.Expr Model.Struct Model.Derived Model.Program Spec.SelectSpec
     Proofs.SelectProofs Proofs.BuildProofs Props.Examples.

(* the three mechanisms the code uses all decide "the strata contain the filter" *)
Theorem C13_comp_is_match : forall c name filt, is_match c name filt = true <-> selects_comp name filt c.
Proof. exact is_match_spec. Qed.
Print Assumptions C13_comp_is_match.

Theorem C13_lookup_agrees_with_subset :
  forall c filt, NoDup (map fst (c_strata c)) -> query_match c filt = has_strata c filt.
Proof. exact query_match_has_strata. Qed.
Print Assumptions C13_lookup_agrees_with_subset.

(* flows: ends tested independently, a missing end never excludes, an empty filter selects all *)
Theorem C13_flow_is_match : forall f name sf df, flow_is_match f name sf df = true <-> selects_flow name sf df f.
Proof. exact flow_is_match_spec. Qed.
Print Assumptions C13_flow_is_match.

Theorem C13_output_flow_selector : forall f name sf df, do_flow_match f name sf df = true <-> selects_flow name sf df f.
Proof. exact do_flow_match_spec. Qed.
Print Assumptions C13_output_flow_selector.

Theorem C13_output_comp_selector :
  forall c names filt, do_comp_match c names filt = true <-> (In (c_name c) names /\ strata_contain (c_strata c) filt).
Proof. exact do_comp_match_spec. Qed.
Print Assumptions C13_output_comp_selector.

(* on every model the API can build, the compartments picked when a flow is added with a strata
   filter, and the results of the query functions, are exactly the selected items in model order *)
Theorem C13_add_flow_selection :
  forall t0 t1 h comps inf ops m name filt cs,
    build_ok t0 t1 h comps inf ops = Some m -> matching_comps m name filt = Ok cs ->
    cs = filter (fun c => is_match c name filt) (m_comps m).
Proof.
  intros t0 t1 h comps inf ops m name filt cs Hb. apply matching_comps_spec.
  intros c Hc. exact (wf_nodup_keys m (wf_build _ _ _ _ _ _ _ Hb) c Hc).
Qed.
Print Assumptions C13_add_flow_selection.

Theorem C13_query_compartments :
  forall t0 t1 h comps inf ops m name filt cs,
    build_ok t0 t1 h comps inf ops = Some m -> query_compartments m (Some name) filt false = Ok cs ->
    cs = filter (fun c => is_match c name filt) (m_comps m).
Proof.
  intros t0 t1 h comps inf ops m name filt cs Hb. apply query_compartments_spec.
  intros c Hc. exact (wf_nodup_keys m (wf_build _ _ _ _ _ _ _ Hb) c Hc).
Qed.
Print Assumptions C13_query_compartments.

Theorem C13_query_flows :
  forall m name sf df, query_flows m (Some name) sf df = filter (fun f => flow_is_match f name sf df) (m_flows m).
Proof. exact query_flows_spec. Qed.
Print Assumptions C13_query_flows.

(* non-vacuity: on the example model, filter {age: y} on "I" selects exactly IXage_y *)
Example C13_nonvacuous :
  ex_model = Some ex_m
  /\ matching_comps ex_m "I" [("age", "y")]%string
     = Ok [{| c_name := "I"; c_strata := [("age", "y")]%string |}]
  /\ List.length (query_flows ex_m (Some "rec"%string) [("age", "o")]%string []) = 1%nat.
Proof. split; [exact ex_model_ok|]. split; vm_compute; reflexivity. Qed.

(* flow adjustments restricted by source / destination strata (Stratification.get_flow_adjustment): of the requests
   declared for the flow's name, in declaration order, the LAST one whose source filter holds at the flow's source and
   whose destination filter holds at its destination (each end on its own; a missing end never excludes) decides;
   requests that do not select the flow play no part, whatever key/value pairs they share with the one that does;
   no request selecting it means no adjustment - for every stratification, flow and list of requests *)
Theorem C13_adjustment_selection :
  forall s f r,
    get_flow_adjustment s f = Ok r ->
    match r with
    | Some a => exists pre e post, declared_for s (f_name f) = pre ++ e :: post /\ request_selects f e /\ fst (fst e) = a
                                   /\ Forall (fun x => ~ request_selects f x) post
    | None => Forall (fun x => ~ request_selects f x) (declared_for s (f_name f))
    end.
Proof. exact adjustment_selection. Qed.
Print Assumptions C13_adjustment_selection.

(* non-vacuity: two requests for "prog" whose filters hold the same pair at opposite ends - {source: clin=asym}, then
   {dest: clin=asym}; the flow E[clin=asym] -> I[clin=sym] is selected by the first only and takes ITS adjustment *)
Example C13_adjustment_nonvacuous :
  let adj1 := [("y", Some (AMul (EConst 2)))]%string in
  let adj2 := [("y", Some (AMul (EConst 5)))]%string in
  let s := {| s_name := "age"; s_kind := SPlain; s_strata := ["y"]%string; s_comps := ["E"; "I"]%string; s_split := [];
              s_fadj := [("prog", (adj1, [("clin", "asym")], [])); ("prog", (adj2, [], [("clin", "asym")]))]%string;
              s_iadj := []; s_mix := None |} in
  let f := {| f_name := "prog"; f_kind := KTrans;
              f_src := Some {| c_name := "E"; c_strata := [("clin", "asym")]%string |};
              f_dst := Some {| c_name := "I"; c_strata := [("clin", "sym")]%string |};
              f_param := EConst 1; f_adjs := [] |} in
  get_flow_adjustment s f = Ok (Some adj1).
Proof. vm_compute. reflexivity. Qed.
