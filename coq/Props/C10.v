(* C10 - Time- and state-dependent inputs are evaluated at the current time and state.
   Statements only; proofs in Proofs/WeightProofs.v, Proofs/ExprLemmas.v, Proofs/RatesProofs.v. *)
From Coq Require Import QArith Qcanon List String Bool.
Import ListNotations.
From S2 Require Import Base.Num Base.Arr Model.Expr Model.Struct Model.Rates Spec.RatesSpec
     Proofs.NumQc Proofs.ExprLemmas Proofs.WeightProofs Proofs.RatesProofs Props.Examples.

(* every flow's weight, as realised by the runner (keys shared between flows with equal
   expressions - hence also between flows sharing a name -, static keys scattered once,
   time-varying keys at every evaluation), is its own adjustment chain evaluated at exactly the
   time and (cleaned) state of this evaluation: never a start-of-run or neighbouring value *)
Theorem C10_fresh :
  forall (O : NumOps) (T : NumTheory O) (p : env O) (t : F O) (x : list (F O)) (fl : list flow) (i : nat),
    (i < List.length fl)%nat ->
    nth i (flow_weights O p t x fl) (f0 O) = weight_spec O p t x (nth i fl dflow).
Proof. exact flow_weights_nth. Qed.
Print Assumptions C10_fresh.

(* an input that mentions neither time nor state acts as a constant for the run *)
Theorem C10_static_constant :
  forall (O : NumOps) (p : env O) (e : expr),
    mentions_mv e = false -> forall t x t' x', eval O p t x e = eval O p t' x' e.
Proof. exact eval_static. Qed.
Print Assumptions C10_static_constant.

(* classification is by expression, not by name: structurally equal weight expressions evaluate
   equally and fall in the same (static or time-varying) class *)
Theorem C10_partition_by_expression :
  forall (O : NumOps) (T : NumTheory O) (a b : expr),
    expr_eqb a b = true ->
    (forall (p : env O) t x, eval O p t x a = eval O p t x b) /\ mentions_mv a = mentions_mv b.
Proof. exact expr_eqb_sound. Qed.
Print Assumptions C10_partition_by_expression.

(* the whole right-hand side at (t, x) is the per-flow law with these fresh weights (C01) *)
Theorem C10_rates_at_current_point :
  forall (O : NumOps) (T : NumTheory O) (m : model) (b : backend) (p : env O) (t : F O) (x0 : list (F O)) (i : nat),
    prepare_structural m = Ok b -> (i < List.length (m_flows m))%nat ->
    nth i (get_flow_rates O m b p t x0) (f0 O)
    = flow_rate_spec O m p t (vclean O x0) (muls_of O m b p t x0) i (nth i (m_flows m) dflow).
Proof. intros O T m b p t x0 i Hb Hi. exact (flow_rate_nth O T m b p t x0 Hb i Hi). Qed.
Print Assumptions C10_rates_at_current_point.

(* non-vacuity: the importation flow of the example model has weight (1 + t)/2 per stratum ... *)
Example C10_nonvacuous :
  let w t := nth 12 (flow_weights QcOps ex_env (Q2Qc t) ex_state (m_flows ex_m)) 0%Qc in
  this (w 1%Q) = (1#1)%Q /\ this (w 3%Q) = (2#1)%Q /\ mentions_mv (realised_expr (nth 12 (m_flows ex_m) dflow)) = true.
Proof. vm_compute. repeat split. Qed.
