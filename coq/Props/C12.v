(* C12 - Outputs align with the model's times and compartments in a deterministic order.
   Statements only; proofs in Proofs/BuildProofs.v and Proofs/ShapeProofs.v. *)
From Coq Require Import QArith List String Bool.
Import ListNotations.
From S2 Require Import Base.Num Base.Arr Model.Expr Model.Struct Model.Rates Model.Run Model.Program
     Proofs.BuildProofs Proofs.ShapeProofs Props.Examples.

(* a stratification replaces each stratified compartment in place by its strata in declaration
   order and leaves the others where they were (stratify_with_inv exposes the model's new
   compartment list; stratify_comps is that flat_map by definition) *)
Theorem C12_in_place :
  forall m s0 m', stratify_with m s0 = Ok m' ->
    m_comps m' = flat_map (fun c => if has_name_in_list c (s_comps (normalise_strat s0))
                                    then map (stratify_comp c (s_name (normalise_strat s0))) (s_strata (normalise_strat s0))
                                    else [c]) (m_comps m).
Proof. intros m s0 m' H. exact (proj1 (stratify_with_inv m s0 m' H)). Qed.
Print Assumptions C12_in_place.

(* distinct compartments stay distinct (for stratifications with distinct strata) *)
Theorem C12_distinct :
  forall m s0 m', wf m -> NoDup (m_comps m) -> NoDup (s_strata (normalise_strat s0)) ->
    stratify_with m s0 = Ok m' -> NoDup (m_comps m').
Proof. exact stratify_with_nodup. Qed.
Print Assumptions C12_distinct.

(* after any sequence of build operations (stratifications, flow additions before and after
   them, ...) every flow endpoint is a compartment of the model, entry flows have no source and
   exit flows no destination, and strata keys are unique and known *)
Theorem C12_wf_invariant :
  forall t0 t1 h comps inf ops m, build_ok t0 t1 h comps inf ops = Some m -> wf m.
Proof. exact wf_build. Qed.
Print Assumptions C12_wf_invariant.

(* ... at the position the runner claims for it *)
Theorem C12_endpoint_position :
  forall t0 t1 h comps inf ops m f c d,
    build_ok t0 t1 h comps inf ops = Some m -> In f (m_flows m) ->
    (f_src f = Some c \/ f_dst f = Some c) ->
    nth (comp_index (m_comps m) c) (m_comps m) d = c.
Proof.
  intros t0 t1 h comps inf ops m f c d Hb Hf Hc. apply comp_index_correct.
  destruct (wf_flows m (wf_build _ _ _ _ _ _ _ Hb) f Hf) as [He _]. apply He. exact Hc.
Qed.
Print Assumptions C12_endpoint_position.

(* the compartment list of every model the API can build is the replay of the recorded stratifications
   on the original names: its order is a function of the build sequence alone *)
Theorem C12_compartments_replay :
  forall t0 t1 h comps inf ops m, build_ok t0 t1 h comps inf ops = Some m ->
    m_comps m = replay_comps (m_orig m) (m_actions m).
Proof. exact actions_ok_build. Qed.
Print Assumptions C12_compartments_replay.

(* the outputs array: one row per model time and one column per compartment, for both fixed-step solvers,
   every model and parameters; the model times are start + k * timestep *)
Theorem C12_outputs_shape :
  forall (O : NumOps) (T : NumTheory O) (m : model) (s : solver) (p pd : env O) rr,
    m_comps m = replay_comps (m_orig m) (m_actions m) -> m_arraypop m = None -> (1 <= num_times m)%nat ->
    run_model_gen O m s p pd = Ok rr ->
    List.length (rr_outputs O rr) = num_times m
    /\ Forall (fun row => List.length row = List.length (m_comps m)) (rr_outputs O rr).
Proof. intros O T. exact (outputs_shape O). Qed.
Print Assumptions C12_outputs_shape.

Theorem C12_times_grid :
  forall (O : NumOps) (m : model) k, (k < num_times m)%nat ->
    List.length (times_F O m) = num_times m
    /\ nth k (times_F O m) (f0 O) = let '(t0, _, h) := m_times m in of_Q O (t0 + inject_Z (Z.of_nat k) * h)%Q.
Proof. intros O m k Hk. split; [apply times_length | apply times_grid; exact Hk]. Qed.
Print Assumptions C12_times_grid.

(* non-vacuity: the example model is reachable, has 6 distinct compartments in in-place order *)
Example C12_nonvacuous :
  ex_model = Some ex_m
  /\ map serialize (m_comps ex_m) = ["SXage_y"; "SXage_o"; "IXage_y"; "IXage_o"; "RXage_y"; "RXage_o"]%string
  /\ num_times_ex = 5%nat.
Proof. split; [exact ex_model_ok|]. split; vm_compute; reflexivity. Qed.
