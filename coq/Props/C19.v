(* C19 - A runner is a traceable array program of its parameters.
   Statements only; proofs in Proofs/TraceProofs.v and Proofs/TraceKernels.v.  Model/Trace.v is the
   model of tracing (Known / Traced values, Conc = ConcretizationTypeError); Gen/TraceGen.v holds the
   kernels of functions/util.py, functions/interpolate.py and clean_compartments translated from the
   current source.  The rest of the run function (closures of model_impl.py, the solvers' loops, the
   derived-output functions) is not translated: it is executed under the value-tainting jax stand-in
   by the check (partial, see DESIGN.md). *)
From Coq Require Import QArith ZArith List String Bool.
Import ListNotations.
From S2 Require Import Model.Trace Proofs.TraceProofs Proofs.TraceKernels Gen.TraceGen.

(* code that passes the binding-time check never needs the concrete value of a run-time dependent
   array - for every callback, loop bound, shape and value of its dynamic inputs *)
Theorem C19_checked_code_is_traceable :
  forall ext fuel g e t r, bt_check g e = Some t -> agrees g r -> forall w, pe ext fuel r e <> Conc w.
Proof. exact checked_never_concretizes. Qed.
Print Assumptions C19_checked_code_is_traceable.

(* tracing never looks at the run-time inputs (they only exist as the argument s of the traced
   function), and the traced function returns, for every value of the inputs on which the eager
   program returns a value, that value: one compiled runner is valid for every parameter value *)
Theorem C19_traced_program_is_right :
  forall ext fuel e r tv, wf_env r -> pe ext fuel r e = Ok tv ->
    wf_t tv /\ forall s re v, inst r s = Some re -> ev ext fuel re e = Some v -> force tv s = Some v.
Proof. exact pe_correct. Qed.
Print Assumptions C19_traced_program_is_right.

(* the kernels as they are in the source now *)
Theorem C19_kernels_traceable :
  traceable k_binary_search_sum_ge_inputs k_binary_search_sum_ge /\
  traceable k_piecewise_constant_inputs k_piecewise_constant /\
  traceable k_linear_curve_at_x_inputs k_linear_curve_at_x /\
  traceable k_interpolate_linear_inputs k_interpolate_linear /\
  traceable k_sigmoidal_curve_at_x_inputs k_sigmoidal_curve_at_x /\
  traceable k_interpolate_sigmoidal_inputs k_interpolate_sigmoidal /\
  traceable k_clean_compartments_inputs k_clean_compartments.
Proof. exact kernels_traceable. Qed.
Print Assumptions C19_kernels_traceable.

(* non-vacuity: a Python-level decision on a traced value is refused by the check and is a
   concretisation error of the tracing semantics; the translated binary search computes
   #{points <= x} eagerly and when traced *)
Local Open Scope string_scope.
Example C19_nonvacuous :
  (bt_check k_clean_compartments_inputs bad_clean = None
   /\ pe no_ext 10 [("compartment_values", traced_input 3 "compartment_values")] bad_clean = Conc "truth value of a traced array")
  /\ ev no_ext 20 [("x", VS (5#2)); ("points", VA [0; 1; 2; 3; 4])] k_binary_search_sum_ge = Some (VS 3)
  /\ match pe no_ext 20 [("x", Traced ShS (fun s => s "x")); ("points", traced_input 5 "points")] k_binary_search_sum_ge with
     | Ok tv => force tv (fun k => if String.eqb k "x" then Some (VS (5#2)) else Some (VA [0; 1; 2; 3; 4])) = Some (VS 3)
     | _ => False
     end.
Proof. split; [exact bad_clean_refused|]. split; [apply bs_eager | exact bs_traced]. Qed.
