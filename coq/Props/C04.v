(* C04 - Stratified flows are exactly the prescribed copies with the prescribed weights.
   Statements only; proofs in Proofs/CopiesProofs.v, Proofs/WeightProofs.v, Proofs/BuildProofs.v. *)
From Coq Require Import QArith Qcanon List String Bool.
Import ListNotations.
From S2 Require Import Base.Num Base.Arr Model.Expr Model.Struct Model.Rates Model.Program Spec.RatesSpec
     Proofs.NumQc Proofs.WeightProofs Proofs.BuildProofs Proofs.CopiesProofs Props.Examples.

(* exactly the prescribed copies, none lost or duplicated *)
Theorem C04_copies :
  forall s f fl, stratify_flow s f = Ok fl ->
    if affected s f then map flow_sig fl = map (copy_ends s f) (copy_strata s f) else fl = [f].
Proof. exact copies_exact. Qed.
Print Assumptions C04_copies.

(* after stratify_with the model's flows are the copies of its former flows, in order, followed by
   the flows added by the (age) stratification itself *)
Theorem C04_model_flows :
  forall m s0 m', stratify_with m s0 = Ok m' ->
    exists fl0 extra, collect (stratify_flow (normalise_strat s0)) (m_flows m) = Ok fl0 /\ m_flows m' = fl0 ++ extra
                      /\ forall f, In f extra -> flow_ok (stratify_comps (normalise_strat s0) (m_comps m)) f.
Proof. exact stratify_with_flows. Qed.
Print Assumptions C04_model_flows.

(* within one stratification the most recently declared adjustment whose filters match wins *)
Theorem C04_last_match_wins :
  forall s f r, get_flow_adjustment s f = Ok r ->
    r = option_map (fun e => fst (fst e)) (last_opt (filter (fadj_applies f) (declared_for s (f_name f)))).
Proof. exact last_match_wins. Qed.
Print Assumptions C04_last_match_wins.

(* the effective weight: Multiply scales, Overwrite replaces everything accumulated before it
   (earlier automatic splits included), None leaves the value unchanged; and this left fold is
   what the runner realises (C01_weights) *)
Theorem C04_chain :
  forall (O : NumOps) (p : env O) t x f g extra,
    f_param g = f_param f -> f_adjs g = f_adjs f ++ extra ->
    weight_spec O p t x g = fold_left (apply_adj O p t x) extra (weight_spec O p t x f).
Proof. intros O p t x f g extra. exact (weight_app O p t x f extra g). Qed.
Print Assumptions C04_chain.

Theorem C04_realised_weight :
  forall (O : NumOps) (p : env O) t x f, eval O p t x (realised_expr f) = weight_spec O p t x f.
Proof. exact eval_realised_expr. Qed.
Print Assumptions C04_realised_weight.

(* defaults without a user adjustment *)
Theorem C04_defaults :
  forall (O : NumOps) (T : NumTheory O) s f fl (p : env O) t x,
    stratify_flow s f = Ok fl -> get_flow_adjustment s f = Ok None -> affected s f = true ->
    forall g, In g fl ->
      weight_spec O p t x g
      = match default_factor s f with
        | Some n => fmul O (weight_spec O p t x f) (of_Q O (1 # Pos.of_nat n))
        | None => weight_spec O p t x f
        end.
Proof. intros O T. exact (default_weights O). Qed.
Print Assumptions C04_defaults.

Theorem C04_divided_copies_sum_to_parent :
  forall (O : NumOps) (T : NumTheory O) (w : F O) n, n <> 0%nat ->
    fmul O (of_nat_F O n) (fmul O w (of_Q O (1 # Pos.of_nat n))) = w.
Proof. exact n_copies_sum. Qed.
Print Assumptions C04_divided_copies_sum_to_parent.

(* non-vacuity: in the example model the recovery flow has 2 copies with weights 1 and 1/2
   (Multiply 2 on stratum y, None on o), the replacement births 2 copies of weight 1/2 *)
Example C04_nonvacuous :
  let w i := this (weight_spec QcOps ex_env (Q2Qc 0) ex_state (nth i (m_flows ex_m) dflow)) in
  map (fun f => f_name f) (m_flows ex_m)
  = ["inf"; "inf"; "rec"; "rec"; "d"; "d"; "d"; "d"; "d"; "d"; "b"; "b"; "imp"; "imp"]%string
  /\ w 2%nat = 1%Q /\ w 3%nat = (1#2)%Q /\ w 10%nat = (1#2)%Q /\ w 11%nat = (1#2)%Q.
Proof. vm_compute. repeat split. Qed.
