(* C03 - Stratifying without adjustments does not change aggregate dynamics.
   Statements only; proofs in Proofs/AggregateProofs.v and Proofs/CopiesProofs.v.
   PARTIAL: proved - (1) the weights of the copies of an unadjusted stratification (C04_defaults), (2) the
   per-flow summation identities that make the summed stratified rates equal the unstratified
   rate, (3) that summing over strata commutes with the whole Euler and RK4 trajectory whenever it
   intertwines the two right-hand sides, (4) the assembly over the flow list: for every well-formed model and
   every ordinary, partial or strain stratification, if the copies' rates add up to the parent's rate flow by flow
   then the net rates of the copies of every compartment add up to that compartment's net rate (every copy keeps
   its ends inside the groups of its parent's ends, the groups are disjoint).  Not proved as one theorem: the
   instantiation of (4) with the index-based right-hand sides of the two models (the identification of the
   per-flow rates of C01 at the aggregated state, which for infection flows involves the force of infection of the
   stratified model); that, strain sums and proportionate mixing are established by the metamorphic oracle and the
   correspondence only (DESIGN.md 6.3).  (4) holds for the age stratification as well (C03_assembly_built): the
   ageing flows it adds stay inside one group of copies and cancel.  For the population-proportional flows
   (transition and death flows with rates that do not read the state) the flow-by-flow identity is proved too, which
   and so is the one for importation and absolute flows, which
   gives one whole-model statement for models made of such flows (C03_linear_models): at ANY state of the
   stratified model, summing the net rates over the copies of a compartment gives that compartment's net rate at
   the aggregated state.  What remains oracle-only: entry flows (crude / replacement births, whose law reads the
   total population or the total deaths), infection flows (the force of infection of the stratified model), and the
   identification of these flow-by-flow rates with the index arithmetic of get_flow_rates (C01 proves it for each
   model separately). *)
From Coq Require Import QArith Qcanon List String Bool.
Import ListNotations.
From S2 Require Import Base.Num Base.Arr Model.Expr Model.Struct Model.Rates Model.Solvers Spec.RatesSpec
     Proofs.NumQc Proofs.BuildProofs Proofs.CopiesProofs Proofs.AggregateProofs Proofs.InvarianceProofs Proofs.Assembly Proofs.SameKeys Proofs.AgeAssembly Proofs.TimeShift Proofs.Scaling Proofs.AggregateRates Proofs.AggregateModel Proofs.AggregateTotals Proofs.AggregateAll Proofs.RatesBridge Proofs.AggregateFinal Proofs.AggregateTraj Proofs.AgeZero Proofs.AggregateClosed Proofs.FoiProofs Proofs.FoiAggregate Proofs.FoiBridge Proofs.FoiModel Proofs.AggregateInf Proofs.RatesBridgeInf Proofs.AggregateFinalInf Proofs.AggregateTrajInf Proofs.AggregatePositive Proofs.AggregatePositiveInf Proofs.RatesProofs Proofs.PositivityProofs Proofs.PositivityTraj Proofs.RunExt Model.Program Props.Examples.

(* the copies of an unadjusted stratification carry the parent's weight, or the parent's weight
   divided by the number of strata for entry flows, destination-only stratified transitions
   (except strains) and absolute flows (once) *)
Theorem C03_unadjusted_copy_weights :
  forall (O : NumOps) (T : NumTheory O) s f fl (p : env O) t x,
    stratify_flow s f = Ok fl -> get_flow_adjustment s f = Ok None -> affected s f = true ->
    forall g, In g fl ->
      weight_spec O p t x g
      = match default_factor s f with
        | Some n => fmul O (weight_spec O p t x f) (of_Q O (1 # Pos.of_nat n))
        | None => weight_spec O p t x f
        end.
Proof. intros O T. exact (default_weights O). Qed.
Print Assumptions C03_unadjusted_copy_weights.

(* summed over the strata, the copies' rates give the parent's rate at the summed state *)
Theorem C03_flow_cases_partial :
  forall (O : NumOps) (T : NumTheory O),
    (forall (w : F O) (xs : list (F O)), fsum O (map (fun xk => fmul O w xk) xs) = fmul O w (fsum O xs))
    /\ (forall (w foi : F O) (xs : list (F O)),
          fsum O (map (fun xk => fmul O (fmul O w xk) foi) xs) = fmul O (fmul O w (fsum O xs)) foi)
    /\ (forall (w X : F O) n, n <> 0%nat ->
          fsum O (repeat (fmul O (fmul O w (of_Q O (1 # Pos.of_nat n))) X) n) = fmul O w X).
Proof.
  intros O T. split; [exact (source_stratified_sum O T)|]. split; [exact (infection_source_stratified_sum O T)|exact (divided_copies_sum O T)].
Qed.
Print Assumptions C03_flow_cases_partial.

(* if summing over the strata intertwines the two right-hand sides (at every time and state), the
   summed stratified trajectory IS the unstratified trajectory from the summed initial state: at
   every row, for every step size and number of steps, Euler and RK4 *)
Theorem C03_traj_euler :
  forall (O : NumOps) (T : NumTheory O) (groups : list (list nat)) (f f' : rhs O) (n' : nat),
    (forall t y, List.length (f' t y) = n') ->
    (forall t y, List.length y = n' -> agg O groups (f' t y) = f t (agg O groups y)) ->
    forall h t0 y0 k, List.length y0 = n' ->
      map (agg O groups) (solve_fixed O (euler_step O) f' t0 h y0 k)
      = solve_fixed O (euler_step O) f t0 h (agg O groups y0) k.
Proof. exact euler_trajectory_aggregates. Qed.
Print Assumptions C03_traj_euler.

Theorem C03_traj_rk4 :
  forall (O : NumOps) (T : NumTheory O) (groups : list (list nat)) (f f' : rhs O) (n' : nat),
    (forall t y, List.length (f' t y) = n') ->
    (forall t y, List.length y = n' -> agg O groups (f' t y) = f t (agg O groups y)) ->
    forall h t0 y0 k, List.length y0 = n' ->
      map (agg O groups) (solve_fixed O (rk4_step O) f' t0 h y0 k)
      = solve_fixed O (rk4_step O) f t0 h (agg O groups y0) k.
Proof. exact rk4_trajectory_aggregates. Qed.
Print Assumptions C03_traj_rk4.

(* every copy of a flow keeps its ends among the copies of its parent's ends (entry / exit flows keep the missing end) *)
Theorem C03_copies_stay_in_their_groups :
  forall s f fl g, flow_shape f -> stratify_flow s f = Ok fl -> In g fl ->
    end_in (group s) (f_dst f) (f_dst g) /\ end_in (group s) (f_src f) (f_src g).
Proof. exact copies_ends_in_groups. Qed.
Print Assumptions C03_copies_stay_in_their_groups.

(* the assembly, for every well-formed model (every model the build API produces, C12_wf_invariant) and every
   ordinary, partial or strain stratification: whatever the per-flow rates, if the rates of the copies of each flow
   add up to the rate of that flow, the net rates (inflow minus outflow) of the copies of each compartment add up to
   the net rate of that compartment *)
Theorem C03_assembly :
  forall (O : NumOps) (T : NumTheory O) (m : model) (s0 : strat) (m' : model) (rate rate' : flow -> F O),
    wf m -> NoDup (s_strata (normalise_strat s0)) ->
    stratify_with m s0 = Ok m' -> is_age (s_kind (normalise_strat s0)) = false ->
    (forall f, In f (m_flows m) -> fsum O (map rate' (copies_of (normalise_strat s0) f)) = rate f) ->
    forall c, In c (m_comps m) ->
      fsum O (map (fun c' => net_rate O rate' (m_flows m') c') (group (normalise_strat s0) c))
      = net_rate O rate (m_flows m) c.
Proof. exact stratified_net_rates. Qed.
Print Assumptions C03_assembly.

(* ... and for every model the build API produces and EVERY kind of stratification - ordinary, partial, strain or age:
   the ageing flows an age stratification adds connect copies of one and the same compartment, so they cancel in
   every group total *)
Theorem C03_assembly_built :
  forall (O : NumOps) (T : NumTheory O) t0 t1 h comps inf ops (m : model) (s0 : strat) (m' : model) (rate rate' : flow -> F O),
    build_ok t0 t1 h comps inf ops = Some m -> NoDup (s_strata (normalise_strat s0)) ->
    stratify_with m s0 = Ok m' ->
    (forall f, In f (m_flows m) -> fsum O (map rate' (copies_of (normalise_strat s0) f)) = rate f) ->
    forall c, In c (m_comps m) ->
      fsum O (map (fun c' => net_rate O rate' (m_flows m') c') (group (normalise_strat s0) c))
      = net_rate O rate (m_flows m) c.
Proof. intros O T. exact (stratified_net_rates_built O T). Qed.
Print Assumptions C03_assembly_built.

(* whole models WITHOUT INFECTION FLOWS: every model the build API produces (with distinct compartment names) whose flows
   are transition, death, importation, absolute, crude-birth and replacement-birth flows with rates that do not mention
   the state; every ordinary, partial or age stratification without flow adjustments (an accepted age stratification has exactly
   one stratum "0": Proofs/AgeZero.v); every parameter set, time and state
   x' of the stratified model.  ni_rate is the documented law of each kind (C01): weight x source, weight x total
   population, weight x total death rate, or the weight itself.  Summed over the copies of a compartment, the net rates
   of the stratified model at x' are that compartment's net rate in the unstratified model at the aggregated state *)
Theorem C03_noninfection_models :
  forall (O : NumOps) (T : NumTheory O) t0 t1 h comps inf ops (m : model) (s0 : strat) (m' : model),
    build_ok t0 t1 h comps inf ops = Some m -> NoDup (m_comps m) ->
    stratify_with m s0 = Ok m' ->
    NoDup (s_strata (normalise_strat s0)) -> s_strata (normalise_strat s0) <> [] ->
    is_strain (s_kind (normalise_strat s0)) = false -> s_fadj (normalise_strat s0) = [] ->
    (forall f, In f (m_flows m) -> ni_flow f) ->
    forall (p : env O) (t : F O) (x' : list (F O)), List.length x' = List.length (m_comps m') ->
    forall c, In c (m_comps m) ->
      fsum O (map (fun c' => net_rate O (ni_rate O p t m' x') (m_flows m') c') (group (normalise_strat s0) c))
      = net_rate O (ni_rate O p t m (aggx O (normalise_strat s0) (m_comps m) x')) (m_flows m) c.
Proof. intros O T. exact (noninfection_model_aggregates_closed O T). Qed.
Print Assumptions C03_noninfection_models.

(* ... and in terms of the functions the runner executes (get_comp_rates of the two models, with their own index
   arithmetic): at every non-negative state x' of the stratified model, the compartment rates summed over the copies of
   the i-th compartment are the rate of the i-th compartment of the unstratified model at the aggregated state.
   (get_comp_rates counts negative entries as zero before anything else, and clipping does not commute with summation:
   hence "non-negative"; C01's per-flow theorem flow_rate_nth identifies each model's rates with the laws.) *)
Theorem C03_comp_rates_aggregate :
  forall (O : NumOps) (T : NumTheory O) t0 t1 h comps inf ops (m : model) (s0 : strat) (m' : model) (b b' : backend),
    build_ok t0 t1 h comps inf ops = Some m -> NoDup (m_comps m) ->
    stratify_with m s0 = Ok m' ->
    prepare_structural m = Ok b -> prepare_structural m' = Ok b' ->
    NoDup (s_strata (normalise_strat s0)) -> s_strata (normalise_strat s0) <> [] ->
    is_strain (s_kind (normalise_strat s0)) = false -> s_fadj (normalise_strat s0) = [] ->
    (forall f, In f (m_flows m) -> ni_flow f) ->
    forall (p : env O) (t : F O) (x' : list (F O)), List.length x' = List.length (m_comps m') ->
    Forall (fun v => fle O T (f0 O) v) x' ->
    forall i dflt, (i < List.length (m_comps m))%nat ->
      fsum O (map (fun c' => nth (comp_index (m_comps m') c') (get_comp_rates O m' b' p t x') (f0 O))
                  (group (normalise_strat s0) (nth i (m_comps m) dflt)))
      = nth i (get_comp_rates O m b p t (aggx O (normalise_strat s0) (m_comps m) x')) (f0 O).
Proof. intros O T. exact (stratified_comp_rates_aggregate_closed O T). Qed.
Print Assumptions C03_comp_rates_aggregate.

(* ... and along whole Euler runs (any step, start time and number of steps): as long as the rows of the stratified run
   stay non-negative, every row summed over the copies of each compartment is the row of the unstratified run started
   from the aggregated initial state.  copy_positions lists, for each compartment of the unstratified model, the positions
   of its copies in the stratified one. *)
Theorem C03_euler_rows_aggregate :
  forall (O : NumOps) (T : NumTheory O) t0 t1 h comps inf ops (m : model) (s0 : strat) (m' : model) (b b' : backend),
    build_ok t0 t1 h comps inf ops = Some m -> NoDup (m_comps m) ->
    stratify_with m s0 = Ok m' ->
    prepare_structural m = Ok b -> prepare_structural m' = Ok b' ->
    NoDup (s_strata (normalise_strat s0)) -> s_strata (normalise_strat s0) <> [] ->
    is_strain (s_kind (normalise_strat s0)) = false -> s_fadj (normalise_strat s0) = [] ->
    (forall f, In f (m_flows m) -> ni_flow f) ->
    forall (p : env O) (hs tstart : F O) (y0' : list (F O)) (k : nat),
      List.length y0' = List.length (m_comps m') ->
      Forall (Forall (fun v => fle O T (f0 O) v))
             (solve_fixed O (euler_step O) (fun t y => get_comp_rates O m' b' p t y) tstart hs y0' k) ->
      map (agg O (copy_positions m s0 m')) (solve_fixed O (euler_step O) (fun t y => get_comp_rates O m' b' p t y) tstart hs y0' k)
      = solve_fixed O (euler_step O) (fun t y => get_comp_rates O m b p t y) tstart hs (agg O (copy_positions m s0 m') y0') k.
Proof. intros O T. exact (stratified_euler_rows_aggregate_closed O T). Qed.
Print Assumptions C03_euler_rows_aggregate.

(* ... and with the premise "the rows stay non-negative" replaced by the conditions under which C18_euler_trajectory_nonneg
   proves it for the stratified model: non-negative weights and force-of-infection multipliers at every time and
   non-negative state, no absolute flow with a source, and step x exit coefficient <= 1 for every compartment *)
Theorem C03_euler_rows_aggregate_positive :
  forall (O : NumOps) (T : NumTheory O) t0 t1 h comps inf ops (m : model) (s0 : strat) (m' : model) (b b' : backend),
    build_ok t0 t1 h comps inf ops = Some m -> NoDup (m_comps m) ->
    stratify_with m s0 = Ok m' ->
    prepare_structural m = Ok b -> prepare_structural m' = Ok b' ->
    NoDup (s_strata (normalise_strat s0)) -> s_strata (normalise_strat s0) <> [] ->
    is_strain (s_kind (normalise_strat s0)) = false -> s_fadj (normalise_strat s0) = [] ->
    (forall f, In f (m_flows m) -> ni_flow f) ->
    forall (p : env O) (hs : F O),
    (forall f, In f (m_flows m') -> flow_shape f) ->
    (forall f c, In f (m_flows m') -> f_src f = Some c -> fkind_eqb (f_kind f) KAbs = false) ->
    fle O T (f0 O) hs ->
    (forall t y f, List.length y = List.length (m_comps m') -> nonneg O T y -> In f (m_flows m') ->
                   fle O T (f0 O) (weight_spec O p t (vclean O y) f)) ->
    (forall t y k, List.length y = List.length (m_comps m') -> nonneg O T y ->
                   fle O T (f0 O) (nth k (muls_of O m' b' p t y) (f0 O))) ->
    (forall t y c, List.length y = List.length (m_comps m') -> nonneg O T y -> (c < List.length (m_comps m'))%nat ->
                   fle O T (fmul O hs (exit_coeff O m' b' p t y c)) (f1 O)) ->
    forall (tstart : F O) (y0' : list (F O)) (k : nat),
      List.length y0' = List.length (m_comps m') -> nonneg O T y0' ->
      map (agg O (copy_positions m s0 m')) (solve_fixed O (euler_step O) (fun t y => get_comp_rates O m' b' p t y) tstart hs y0' k)
      = solve_fixed O (euler_step O) (fun t y => get_comp_rates O m b p t y) tstart hs (agg O (copy_positions m s0 m') y0') k.
Proof. intros O T. exact (stratified_euler_rows_aggregate_positive O T). Qed.
Print Assumptions C03_euler_rows_aggregate_positive.

(* the force of infection (C05's definition foi_spec: sum_j M[i,j] P_j(s) or sum_j M[i,j] P_j(s)/N_j) reads the state only
   through group totals: if groups lists for every compartment of the unstratified layout the positions of its copies
   (disjoint), the copies share their compartment's infectiousness, and the categories and the strain's infectious
   index list of the stratified layout are the unions of the groups of the unstratified ones, then the force of
   infection at a state x' of the stratified layout is the force of infection at the aggregated state - any mixing matrix,
   any number of categories, density and frequency.
   (definition level; C03_force_of_infection_aggregates below identifies the index lists of built models with these unions) *)
Theorem C03_foi_reads_group_totals :
  forall (O : NumOps) (T : NumTheory O) (groups : list (list nat)),
    (forall c1 c2 q, In q (G groups c1) -> In q (G groups c2) -> c1 = c2) ->
    forall (x' infness' infness : list (F O)),
    (forall c q, (c < List.length groups)%nat -> In q (G groups c) ->
                 get_clamp (f0 O) infness' q = get_clamp (f0 O) infness c) ->
    forall (freq : bool) (mix : list (list (F O))) (cats : list (list nat)) (inf_idx : list nat) (i : nat),
    (forall cat c, In cat cats -> In c cat -> (c < List.length groups)%nat) ->
    foi_spec O freq mix x' infness' (map (lift groups) cats) (lift groups inf_idx) i
    = foi_spec O freq mix (agg O groups x') infness cats inf_idx i.
Proof. intros O T. exact (foi_spec_aggregates O T). Qed.
Print Assumptions C03_foi_reads_group_totals.

(* ... and on built models: for every model the build API produces (distinct compartments) and every stratification it
   accepts that is not a strain stratification and has no mixing matrix and no infectiousness adjustments, the force of
   infection of the stratified model - C05's definition over ITS categories, ITS strain's infectious compartments and
   ITS infectiousness vector, which is what C05_multiplier shows the runner computes - at any state x' is the force of
   infection of the unstratified model at the aggregated state; the mixing matrix, the strains and the categories are
   those of the unstratified model.  (The category populations N_j and the infectious populations P_j(s) aggregate one
   by one: Proofs/FoiModel.v category_population_aggregates, infectious_population_aggregates.) *)
Theorem C03_force_of_infection_aggregates :
  forall (O : NumOps) (T : NumTheory O) t0 t1 h comps inf ops (m : model) (s0 : strat) (m' : model),
    build_ok t0 t1 h comps inf ops = Some m -> NoDup (m_comps m) ->
    stratify_with m s0 = Ok m' ->
    NoDup (s_strata (normalise_strat s0)) ->
    is_strain (s_kind (normalise_strat s0)) = false -> s_mix (normalise_strat s0) = None -> s_iadj (normalise_strat s0) = [] ->
    forall (p : env O) (x' : list (F O)) (freq : bool) (mix : list (list (F O))) (strain : string) (i : nat),
      (foi_spec O freq mix x' (compartment_infectiousness O m' p) (map (cat_members m') (m_mixcats m'))
                (strain_infectious_comps m' strain) i
       = foi_spec O freq mix (agg O (copy_positions m s0 m') x') (compartment_infectiousness O m p)
                  (map (cat_members m) (m_mixcats m)) (strain_infectious_comps m strain) i)
      /\ (forall t x, mixing_matrix O m' p t x = mixing_matrix O m p t x)
      /\ m_strains m' = m_strains m /\ m_mixcats m' = m_mixcats m.
Proof.
  intros O T t0 t1 h comps inf ops m s0 m' Hb Hnd H Hst Hns Hmix Hia p x' freq mix strain i.
  exact (conj (force_of_infection_aggregates_built O T t0 t1 h comps inf ops m s0 m' Hb Hnd H Hst Hns Hmix Hia p x' freq mix strain i)
              (conj (fun t x => mixing_matrix_kept O m s0 m' H Hmix p t x) (strains_kept m s0 m' H Hns Hmix))).
Qed.
Print Assumptions C03_force_of_infection_aggregates.

(* WHOLE MODELS, INFECTION FLOWS INCLUDED, at the level of the documented laws: every model the build API produces
   (distinct compartments) whose rates, adjustments and mixing matrices do not read the state; every ordinary, partial
   or age stratification that is not a strain stratification and carries no flow adjustments, no mixing matrix and no
   infectiousness adjustments; every parameter set, time and state x' of the stratified model.  all_rate is the documented
   law of each kind (C01): for infection flows weight x source x force of infection, the force of infection being C05's
   definition at the mixing category of the source and the strain of the destination (mult_of; C05_multiplier identifies
   it with what the runner computes).  Summed over the copies of a compartment, the net rates of the stratified model at
   x' are the compartment's net rate in the unstratified model at the aggregated state.
   partial: strain stratifications and stratifications that add a mixing matrix (the proportionate-mixing clause) are
   not covered; the statement is about the laws, the identification of get_comp_rates with them being proved for the
   models without infection flows (C03_comp_rates_aggregate) and per flow in C01 / C05 otherwise *)
Theorem C03_all_flows_models_partial :
  forall (O : NumOps) (T : NumTheory O) t0 t1 h comps inf ops (m : model) (s0 : strat) (m' : model),
    build_ok t0 t1 h comps inf ops = Some m -> NoDup (m_comps m) ->
    stratify_with m s0 = Ok m' ->
    NoDup (s_strata (normalise_strat s0)) -> s_strata (normalise_strat s0) <> [] ->
    is_strain (s_kind (normalise_strat s0)) = false -> s_fadj (normalise_strat s0) = [] ->
    s_mix (normalise_strat s0) = None -> s_iadj (normalise_strat s0) = [] ->
    (forall f, In f (m_flows m) -> all_flow f) ->
    forallb state_free (mix_exprs m) = true ->
    forall (p : env O) (t : F O) (x' : list (F O)), List.length x' = List.length (m_comps m') ->
    forall c, In c (m_comps m) ->
      fsum O (map (fun c' => net_rate O (all_rate O p t m' x') (m_flows m') c') (group (normalise_strat s0) c))
      = net_rate O (all_rate O p t m (aggx O (normalise_strat s0) (m_comps m) x')) (m_flows m) c.
Proof. intros O T. exact (all_flows_model_aggregates O T). Qed.
Print Assumptions C03_all_flows_models_partial.

(* ... and in terms of the functions the runner executes, infection flows included: within the domain of C05_multiplier
   for both models (foi_domain: every mixing category holds the same number k >= 1 of each strain's infectious
   compartments - what numpy's reshape needs - and the category of every infection flow's source indexes a row of the
   mixing matrix), at every non-negative state x' the entries of get_comp_rates of the stratified model summed over the
   copies of the i-th compartment are entry i of get_comp_rates of the unstratified model at the aggregated state.
   (For both models get_comp_rates is "inflow minus outflow of the documented laws": Proofs/RatesBridgeInf.v
   comp_rates_are_net_rates_all, from C01's flow_rate_nth and C05's infectious_multiplier_spec.) *)
Theorem C03_comp_rates_aggregate_all_partial :
  forall (O : NumOps) (T : NumTheory O) t0 t1 h comps inf ops (m : model) (s0 : strat) (m' : model) (b b' : backend),
    build_ok t0 t1 h comps inf ops = Some m -> NoDup (m_comps m) ->
    stratify_with m s0 = Ok m' ->
    prepare_structural m = Ok b -> prepare_structural m' = Ok b' ->
    NoDup (s_strata (normalise_strat s0)) -> s_strata (normalise_strat s0) <> [] ->
    is_strain (s_kind (normalise_strat s0)) = false -> s_fadj (normalise_strat s0) = [] ->
    s_mix (normalise_strat s0) = None -> s_iadj (normalise_strat s0) = [] ->
    (forall f, In f (m_flows m) -> all_flow f) ->
    forallb state_free (mix_exprs m) = true ->
    forall (p : env O) (t : F O) (x' : list (F O)), List.length x' = List.length (m_comps m') ->
    Forall (fun v => fle O T (f0 O) v) x' ->
    foi_domain O m p t (aggx O (normalise_strat s0) (m_comps m) x') -> foi_domain O m' p t x' ->
    forall i dflt, (i < List.length (m_comps m))%nat ->
      fsum O (map (fun c' => nth (comp_index (m_comps m') c') (get_comp_rates O m' b' p t x') (f0 O))
                  (group (normalise_strat s0) (nth i (m_comps m) dflt)))
      = nth i (get_comp_rates O m b p t (aggx O (normalise_strat s0) (m_comps m) x')) (f0 O).
Proof. intros O T. exact (stratified_comp_rates_aggregate_all O T). Qed.
Print Assumptions C03_comp_rates_aggregate_all_partial.

(* ... and along whole Euler runs of models with infection flows (any step, start time and number of steps; the domain
   of C05_multiplier is structural, so it is asked of every time and state): as long as the rows of the stratified run
   stay non-negative (C18_euler_trajectory_nonneg gives conditions), every row summed over the copies of each compartment
   is the row of the unstratified run started from the aggregated initial state *)
Theorem C03_euler_rows_aggregate_all_partial :
  forall (O : NumOps) (T : NumTheory O) t0 t1 h comps inf ops (m : model) (s0 : strat) (m' : model) (b b' : backend),
    build_ok t0 t1 h comps inf ops = Some m -> NoDup (m_comps m) ->
    stratify_with m s0 = Ok m' ->
    prepare_structural m = Ok b -> prepare_structural m' = Ok b' ->
    NoDup (s_strata (normalise_strat s0)) -> s_strata (normalise_strat s0) <> [] ->
    is_strain (s_kind (normalise_strat s0)) = false -> s_fadj (normalise_strat s0) = [] ->
    s_mix (normalise_strat s0) = None -> s_iadj (normalise_strat s0) = [] ->
    (forall f, In f (m_flows m) -> all_flow f) ->
    forallb state_free (mix_exprs m) = true ->
    forall (p : env O),
    (forall t y, foi_domain O m p t y) -> (forall t y, foi_domain O m' p t y) ->
    forall (hs tstart : F O) (y0' : list (F O)) (k : nat),
      List.length y0' = List.length (m_comps m') ->
      Forall (Forall (fun v => fle O T (f0 O) v))
             (solve_fixed O (euler_step O) (fun t y => get_comp_rates O m' b' p t y) tstart hs y0' k) ->
      map (agg O (copy_positions m s0 m')) (solve_fixed O (euler_step O) (fun t y => get_comp_rates O m' b' p t y) tstart hs y0' k)
      = solve_fixed O (euler_step O) (fun t y => get_comp_rates O m b p t y) tstart hs (agg O (copy_positions m s0 m') y0') k.
Proof. intros O T. exact (stratified_euler_rows_aggregate_all O T). Qed.
Print Assumptions C03_euler_rows_aggregate_all_partial.

(* ... the same for models with infection flows (the premises of C03_euler_rows_aggregate_all_partial and of
   C18_euler_trajectory_nonneg for the stratified model) *)
Theorem C03_euler_rows_aggregate_all_positive_partial :
  forall (O : NumOps) (T : NumTheory O) t0 t1 h comps inf ops (m : model) (s0 : strat) (m' : model) (b b' : backend),
    build_ok t0 t1 h comps inf ops = Some m -> NoDup (m_comps m) ->
    stratify_with m s0 = Ok m' ->
    prepare_structural m = Ok b -> prepare_structural m' = Ok b' ->
    NoDup (s_strata (normalise_strat s0)) -> s_strata (normalise_strat s0) <> [] ->
    is_strain (s_kind (normalise_strat s0)) = false -> s_fadj (normalise_strat s0) = [] ->
    s_mix (normalise_strat s0) = None -> s_iadj (normalise_strat s0) = [] ->
    (forall f, In f (m_flows m) -> all_flow f) ->
    forallb state_free (mix_exprs m) = true ->
    forall (p : env O) (hs : F O),
    (forall t y, foi_domain O m p t y) -> (forall t y, foi_domain O m' p t y) ->
    (forall f, In f (m_flows m') -> flow_shape f) ->
    (forall f c, In f (m_flows m') -> f_src f = Some c -> fkind_eqb (f_kind f) KAbs = false) ->
    fle O T (f0 O) hs ->
    (forall t y f, List.length y = List.length (m_comps m') -> nonneg O T y -> In f (m_flows m') ->
                   fle O T (f0 O) (weight_spec O p t (vclean O y) f)) ->
    (forall t y k, List.length y = List.length (m_comps m') -> nonneg O T y ->
                   fle O T (f0 O) (nth k (muls_of O m' b' p t y) (f0 O))) ->
    (forall t y c, List.length y = List.length (m_comps m') -> nonneg O T y -> (c < List.length (m_comps m'))%nat ->
                   fle O T (fmul O hs (exit_coeff O m' b' p t y c)) (f1 O)) ->
    forall (tstart : F O) (y0' : list (F O)) (k : nat),
      List.length y0' = List.length (m_comps m') -> nonneg O T y0' ->
      map (agg O (copy_positions m s0 m')) (solve_fixed O (euler_step O) (fun t y => get_comp_rates O m' b' p t y) tstart hs y0' k)
      = solve_fixed O (euler_step O) (fun t y => get_comp_rates O m b p t y) tstart hs (agg O (copy_positions m s0 m') y0') k.
Proof. intros O T. exact (stratified_euler_rows_aggregate_all_positive O T). Qed.
Print Assumptions C03_euler_rows_aggregate_all_positive_partial.

(* non-vacuity: S, I, R with I split in two copies (positions 1 and 2), the second half as infectious in both layouts *)
Example C03_foi_nonvacuous :
  let groups := [[0]; [1; 2]; [3]]%nat in
  let x' := map Q2Qc [70; 10; 20; 5]%Q in
  foi_spec QcOps true [[Q2Qc 2]] x' (map Q2Qc [1; (1#2); (1#2); 1]%Q) (map (lift groups) [[0; 1; 2]%nat]) (lift groups [1%nat]) 0
  = foi_spec QcOps true [[Q2Qc 2]] (agg QcOps groups x') (map Q2Qc [1; (1#2); 1]%Q) [[0; 1; 2]%nat] [1%nat] 0
  /\ this (foi_spec QcOps true [[Q2Qc 2]] x' (map Q2Qc [1; (1#2); (1#2); 1]%Q) (map (lift groups) [[0; 1; 2]%nat]) (lift groups [1%nat]) 0)
     = (2#7)%Q.
Proof. vm_compute. split; reflexivity. Qed.

(* non-vacuity: in the example model the two copies of the replacement-birth flow carry weight 1/2
   each (entry flow into a newly stratified destination) and the universal-death copies keep 1/64 *)
Example C03_nonvacuous :
  let w i := this (weight_spec QcOps ex_env (Q2Qc 0) ex_state (nth i (m_flows ex_m) dflow_ex)) in
  w 10%nat = (1#2)%Q /\ w 11%nat = (1#2)%Q /\ w 4%nat = (1#64)%Q /\ w 9%nat = (1#64)%Q.
Proof. vm_compute. repeat split. Qed.

(* non-vacuity of the assembly: the example's age-group stratification (an ordinary stratification with a mixing
   matrix) applied to the model built by the operations before it satisfies the premises, for any copy rates *)
Definition pre_ops : list Model.Program.op := firstn 6 ex_ops.
Example C03_assembly_nonvacuous :
  match Model.Program.build_ok 0 2 (1#2) ["S"; "I"; "R"]%string ["I"]%string pre_ops with
  | Some m0 => wf m0 /\ NoDup (s_strata (normalise_strat ex_age)) /\ is_age (s_kind (normalise_strat ex_age)) = false
               /\ (exists m1, stratify_with m0 ex_age = Ok m1 /\ List.length (m_flows m1) = 14%nat)
  | None => False
  end.
Proof.
  destruct (Model.Program.build_ok 0 2 (1#2) ["S"; "I"; "R"]%string ["I"]%string pre_ops) as [m0|] eqn:E; [|vm_compute in E; discriminate].
  split; [eapply wf_build; exact E|].
  split; [vm_compute; repeat constructor; cbn; intuition discriminate|].
  split; [reflexivity|].
  vm_compute in E. injection E as <-. vm_compute. eexists. split; reflexivity.
Qed.

(* non-vacuity of the age case: an age stratification [0, 5] of the same pre-stratification model is accepted, is an age
   stratification, and adds three ageing flows (one per compartment) to the copies of the existing flows *)
Definition ex_agestrat : strat :=
  {| s_name := "age"; s_kind := SAge; s_strata := ["0"; "5"]%string; s_comps := ["S"; "I"; "R"]%string;
     s_split := []; s_fadj := []; s_iadj := []; s_mix := None |}.
Example C03_assembly_age_nonvacuous :
  match Model.Program.build_ok 0 2 (1#2) ["S"; "I"; "R"]%string ["I"]%string pre_ops with
  | Some m0 => is_age (s_kind (normalise_strat ex_agestrat)) = true
               /\ (exists m1, stratify_with m0 ex_agestrat = Ok m1
                              /\ List.length (m_flows m1) = (List.length (flat_map (copies_of (normalise_strat ex_agestrat)) (m_flows m0)) + 3)%nat)
  | None => False
  end.
Proof. vm_compute. split; [reflexivity|]. eexists. split; reflexivity. Qed.

(* non-vacuity of C03_noninfection_models: S -> I -> R with progression, recovery, universal deaths, replacement births
   and an importation flow, stratified by location without adjustments *)
Definition frac_ops : list Model.Program.op :=
  [ OpPop [("S"%string, EConst 900); ("I"%string, EConst 100)];
    OpFlow (FlowSpec KTrans "prog" (EParam "beta") "S" "I" [] [] None false);
    OpFlow (FlowSpec KTrans "rec" (EConst (1#2)) "I" "R" [] [] None false);
    OpUDeath "d" (EConst (1#64));
    OpFlow (FlowSpec KRepl "b" (EConst 1) "" "S" [] [] None false);
    OpFlow (FlowSpec KImport "imp" (EAdd (EConst 1) ETime) "" "I" [] [] None false) ].
Definition frac_strat : strat :=
  {| s_name := "loc"; s_kind := SPlain; s_strata := ["a"; "b"; "c"]%string; s_comps := ["S"; "I"]%string;
     s_split := []; s_fadj := []; s_iadj := []; s_mix := None |}.
Definition ni_flow_b (f : flow) : bool :=
  negb (is_infection (f_kind f))
  && (match f_kind f with KTrans | KDeath => match f_src f with Some _ => true | None => false end | _ => true end)
  && forallb state_free (flow_exprs f).
Example C03_noninfection_nonvacuous :
  match Model.Program.build_ok 0 2 (1#2) ["S"; "I"; "R"]%string ["I"]%string frac_ops with
  | Some m0 => forallb ni_flow_b (m_flows m0) = true /\ List.length (m_flows m0) = 7%nat
               /\ NoDup (m_comps m0) /\ (exists b0, prepare_structural m0 = Ok b0)
               /\ (exists m1, stratify_with m0 frac_strat = Ok m1 /\ List.length (m_comps m1) = 7%nat /\ List.length (m_flows m1) = 19%nat
                              /\ exists b1, prepare_structural m1 = Ok b1)
  | None => False
  end.
Proof.
  vm_compute. split; [reflexivity|]. split; [reflexivity|].
  split; [repeat constructor; cbn; intuition discriminate|].
  split; [eexists; reflexivity|]. eexists. split; [reflexivity|]. split; [reflexivity|]. split; [reflexivity|]. eexists; reflexivity.
Qed.

(* non-vacuity of C03_all_flows_models_partial: an SIR model with a frequency-dependent infection flow, recovery,
   universal deaths and replacement births, first stratified by age with a mixing matrix (so that there are two mixing
   categories), then by location without adjustments: the premises hold, and the infection flow's law is not zero *)
Definition inf_ops : list Model.Program.op :=
  [ OpPop [("S"%string, EConst 900); ("I"%string, EConst 100)];
    OpFlow (FlowSpec KInfFreq "inf" (EParam "beta") "S" "I" [] [] None false);
    OpFlow (FlowSpec KTrans "rec" (EConst (1#2)) "I" "R" [] [] None false);
    OpUDeath "d" (EConst (1#64));
    OpFlow (FlowSpec KRepl "b" (EConst 1) "" "S" [] [] None false);
    OpStrat ex_age ].
Definition all_flow_b (f : flow) : bool :=
  (match f_kind f with KTrans | KDeath | KInfFreq | KInfDens => match f_src f with Some _ => true | None => false end | _ => true end)
  && forallb state_free (flow_exprs f).
Example C03_all_flows_nonvacuous :
  match Model.Program.build_ok 0 2 (1#2) ["S"; "I"; "R"]%string ["I"]%string inf_ops with
  | Some m0 => forallb all_flow_b (m_flows m0) = true /\ forallb state_free (mix_exprs m0) = true
               /\ List.length (m_mixcats m0) = 2%nat /\ NoDup (m_comps m0)
               /\ existsb (fun f => is_infection (f_kind f)) (m_flows m0) = true
               /\ (exists m1, stratify_with m0 frac_strat = Ok m1 /\ List.length (m_comps m1) = 14%nat)
               /\ Qeq_bool (this (all_rate QcOps ex_env (Q2Qc 0) m0 (map Q2Qc [400; 500; 60; 40; 7; 3]%Q) (nth 0 (m_flows m0) dflow_ex))) 0 = false
  | None => False
  end.
Proof.
  vm_compute. split; [reflexivity|]. split; [reflexivity|]. split; [reflexivity|].
  split; [repeat constructor; cbn; intuition discriminate|].
  split; [reflexivity|]. split; [eexists; split; reflexivity | reflexivity].
Qed.

(* non-vacuity of C03_comp_rates_aggregate_all_partial: the example above and its stratification by location are in the
   domain of C05_multiplier at a non-negative state of the stratified model and at its aggregate *)
Definition inf_m0 : model :=
  match Model.Program.build_ok 0 2 (1#2) ["S"; "I"; "R"]%string ["I"]%string inf_ops with Some m => m | None => empty_model end.
Definition inf_m1 : model := match stratify_with inf_m0 frac_strat with Ok m => m | Err _ => empty_model end.
Definition inf_x1 : list Qc := map Q2Qc [100; 200; 100; 50; 150; 100; 20; 30; 10; 5; 15; 20; 7; 3]%Q.
Example C03_foi_domain_nonvacuous :
  foi_domain QcOps inf_m1 ex_env (Q2Qc 0) inf_x1
  /\ foi_domain QcOps inf_m0 ex_env (Q2Qc 0) (aggx QcOps (normalise_strat frac_strat) (m_comps inf_m0) inf_x1)
  /\ forallb (fun v => Qle_bool 0 (this v)) inf_x1 = true /\ stratify_with inf_m0 frac_strat = Ok inf_m1.
Proof.
  split; [apply foi_domain_b_sound; vm_compute; reflexivity|].
  split; [apply foi_domain_b_sound; vm_compute; reflexivity|]. split; vm_compute; reflexivity.
Qed.
