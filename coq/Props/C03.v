(* C03 - Stratifying without adjustments does not change aggregate dynamics.
   Statements only; proofs in Proofs/AggregateProofs.v and Proofs/CopiesProofs.v.
   PARTIAL: proved - (1) the weights of the copies of an unadjusted stratification (C04_defaults), (2) the
   per-flow summation identities that make the summed stratified rates equal the unstratified
   rate, (3) that summing over strata commutes with the whole Euler and RK4 trajectory whenever it
   intertwines the two right-hand sides.  Not proved as one theorem: that the index-based
   right-hand side of the stratified model is intertwined with the unstratified one for every
   model (the assembly of (1)-(2) over the flow list); that, strain sums and proportionate mixing
   are established by the metamorphic oracle and the correspondence only (DESIGN.md 6.3). *)
From Coq Require Import QArith Qcanon List String Bool.
Import ListNotations.
From S2 Require Import Base.Num Base.Arr Model.Expr Model.Struct Model.Rates Model.Solvers Spec.RatesSpec
     Proofs.NumQc Proofs.CopiesProofs Proofs.AggregateProofs Props.Examples.

(* the copies of an unadjusted stratification carry the parent's weight, or the parent's weight
   divided by the number of strata for entry flows, destination-only stratified transitions
   (except strains) and absolute flows (once) *)
Theorem C03_unadjusted_copy_weights :
  forall (O : NumOps) (T : NumTheory O) s f fl (p : env O) t x,
    stratify_flow s f = Ok fl -> get_flow_adjustment s f = Ok None -> affected s f = true ->
    forall g, In g fl ->
      weight_spec O p t x g
      = match default_factor s f with
        | Some n => fmul O (weight_spec O p t x f) (of_Q O (1 # Pos.of_nat n))
        | None => weight_spec O p t x f
        end.
Proof. intros O T. exact (default_weights O). Qed.
Print Assumptions C03_unadjusted_copy_weights.

(* summed over the strata, the copies' rates give the parent's rate at the summed state *)
Theorem C03_flow_cases_partial :
  forall (O : NumOps) (T : NumTheory O),
    (forall (w : F O) (xs : list (F O)), fsum O (map (fun xk => fmul O w xk) xs) = fmul O w (fsum O xs))
    /\ (forall (w foi : F O) (xs : list (F O)),
          fsum O (map (fun xk => fmul O (fmul O w xk) foi) xs) = fmul O (fmul O w (fsum O xs)) foi)
    /\ (forall (w X : F O) n, n <> 0%nat ->
          fsum O (repeat (fmul O (fmul O w (of_Q O (1 # Pos.of_nat n))) X) n) = fmul O w X).
Proof.
  intros O T. split; [exact (source_stratified_sum O T)|]. split; [exact (infection_source_stratified_sum O T)|exact (divided_copies_sum O T)].
Qed.
Print Assumptions C03_flow_cases_partial.

(* if summing over the strata intertwines the two right-hand sides (at every time and state), the
   summed stratified trajectory IS the unstratified trajectory from the summed initial state: at
   every row, for every step size and number of steps, Euler and RK4 *)
Theorem C03_traj_euler :
  forall (O : NumOps) (T : NumTheory O) (groups : list (list nat)) (f f' : rhs O) (n' : nat),
    (forall t y, List.length (f' t y) = n') ->
    (forall t y, List.length y = n' -> agg O groups (f' t y) = f t (agg O groups y)) ->
    forall h t0 y0 k, List.length y0 = n' ->
      map (agg O groups) (solve_fixed O (euler_step O) f' t0 h y0 k)
      = solve_fixed O (euler_step O) f t0 h (agg O groups y0) k.
Proof. exact euler_trajectory_aggregates. Qed.
Print Assumptions C03_traj_euler.

Theorem C03_traj_rk4 :
  forall (O : NumOps) (T : NumTheory O) (groups : list (list nat)) (f f' : rhs O) (n' : nat),
    (forall t y, List.length (f' t y) = n') ->
    (forall t y, List.length y = n' -> agg O groups (f' t y) = f t (agg O groups y)) ->
    forall h t0 y0 k, List.length y0 = n' ->
      map (agg O groups) (solve_fixed O (rk4_step O) f' t0 h y0 k)
      = solve_fixed O (rk4_step O) f t0 h (agg O groups y0) k.
Proof. exact rk4_trajectory_aggregates. Qed.
Print Assumptions C03_traj_rk4.

(* non-vacuity: in the example model the two copies of the replacement-birth flow carry weight 1/2
   each (entry flow into a newly stratified destination) and the universal-death copies keep 1/64 *)
Example C03_nonvacuous :
  let w i := this (weight_spec QcOps ex_env (Q2Qc 0) ex_state (nth i (m_flows ex_m) dflow_ex)) in
  w 10%nat = (1#2)%Q /\ w 11%nat = (1#2)%Q /\ w 4%nat = (1#64)%Q /\ w 9%nat = (1#64)%Q.
Proof. vm_compute. repeat split. Qed.
