(* C06 - Initial population = declared distribution pushed through splits and rebalances.
   Statements only; proofs in Proofs/InitProofs.v and Proofs/SolversProofs.v.
   PARTIAL: the theorems below are about the specification sv_spec (in-place replacement, value x
   split); that the index-array scatter of runner/jax/stratify.py (Model/InitPop.v stratify_values)
   and the rebalance of population.py compute this specification is established by the
   correspondence check and the oracle only, not by a theorem (DESIGN.md 6.6). *)
From Coq Require Import QArith Qcanon List String Bool.
Import ListNotations.
From S2 Require Import Base.Num Base.Arr Model.Expr Model.Struct Model.InitPop Model.Solvers Model.Run Model.Program
     Proofs.NumQc Proofs.InitProofs Proofs.SolversProofs Props.Examples.

(* a stratified compartment is replaced by its strata, each holding the parent's value times the
   split of its stratum; unstratified compartments keep their value (to any depth: the product of
   the splits of the strata a compartment belongs to) *)
Theorem C06_value_partial :
  forall (O : NumOps) (p : env O) s cvs c' v',
    In (c', v') (sv_spec O p s cvs) ->
    exists c v, In (c, v) cvs /\
      ((has_name_in_list c (s_comps s) = true /\ exists st, In st (s_strata s) /\ c' = stratify_comp c (s_name s) st
                                                          /\ v' = fmul O v (split_of O p s st))
       \/ (has_name_in_list c (s_comps s) = false /\ c' = c /\ v' = v)).
Proof. exact sv_spec_value. Qed.
Print Assumptions C06_value_partial.

Theorem C06_same_compartments_partial :
  forall (O : NumOps) (p : env O) s cvs, map fst (sv_spec O p s cvs) = stratify_comps s (map fst cvs).
Proof. exact sv_spec_comps. Qed.
Print Assumptions C06_same_compartments_partial.

(* splits that sum to one preserve every original compartment's total, and the grand total - for
   literal, parameterised and function-valued splits alike (split_of evaluates any expression) *)
Theorem C06_totals_partial :
  forall (O : NumOps) (T : NumTheory O) (p : env O) s n cvs,
    splits_sum_to_one O p s -> total_named O n (sv_spec O p s cvs) = total_named O n cvs.
Proof. exact sv_spec_total. Qed.
Print Assumptions C06_totals_partial.

Theorem C06_grand_total_partial :
  forall (O : NumOps) (T : NumTheory O) (p : env O) s cvs,
    splits_sum_to_one O p s -> fsum O (map snd (sv_spec O p s cvs)) = fsum O (map snd cvs).
Proof. exact sv_spec_grand_total. Qed.
Print Assumptions C06_grand_total_partial.

(* a whole-population array supplied as a graph object is used verbatim *)
Theorem C06_array_verbatim :
  forall (O : NumOps) (m : model) (p : env O) arr,
    m_arraypop m = Some arr -> initial_population O m p = map (static_eval O p) arr.
Proof. intros O m p arr H. unfold initial_population. rewrite H. reflexivity. Qed.
Print Assumptions C06_array_verbatim.

(* the first row of the outputs is this initial population for the fixed-step solvers *)
Theorem C06_row0 :
  forall (O : NumOps) (step : rhs O -> F O -> F O -> list (F O) -> list (F O)) f t0 h y0 n d,
    nth 0 (solve_fixed O step f t0 h y0 n) d = y0.
Proof. intros. unfold solve_fixed. apply iterate_steps_row0. Qed.
Print Assumptions C06_row0.

(* non-vacuity: the example model: S = 900 split 5/8, 3/8; I = 100 *)
Example C06_nonvacuous :
  map this (initial_population QcOps ex_m ex_env) = [(1125#2); (675#2); (125#2); (75#2); 0; 0]%Q.
Proof. vm_compute. reflexivity. Qed.
