(* C06 - Initial population = declared distribution pushed through splits and rebalances.
   Statements only; proofs in Proofs/InitProofs.v, Proofs/InitBridge.v and Proofs/SolversProofs.v.
   The index-array scatter of runner/jax/stratify.py (Model/InitPop.v stratify_values) is proved to
   compute the specification sv_spec (in-place replacement, value x split) for every compartment
   list, and get_calculate_initial_pop to be the replay of the recorded actions on (compartment,
   value) pairs; what a population-split adjustment (population.py rebalance) does to the values is
   characterised index by index (C06_rebalance).  The theorems named _partial are the ones about the
   specification of a single step.  C06_rebalance states the characterisation for any model under the condition
   that a compartment sees one group total; C06_rebalance_built discharges that condition for every model the
   build API produces (compartments of one name carry the same stratifications - an invariant of the build -
   hence every compartment lies in exactly one group) (DESIGN.md 6.6). *)
From Coq Require Import QArith Qcanon List String Bool.
Import ListNotations.
From S2 Require Import Base.Num Base.Arr Model.Expr Model.Struct Model.InitPop Model.Solvers Model.Run Model.Program
     Proofs.NumQc Proofs.InitProofs Proofs.InitBridge Proofs.SolversProofs Proofs.RebalanceProofs Proofs.SameKeys Props.Examples.

(* a stratified compartment is replaced by its strata, each holding the parent's value times the
   split of its stratum; unstratified compartments keep their value (to any depth: the product of
   the splits of the strata a compartment belongs to) *)
Theorem C06_value_partial :
  forall (O : NumOps) (p : env O) s cvs c' v',
    In (c', v') (sv_spec O p s cvs) ->
    exists c v, In (c, v) cvs /\
      ((has_name_in_list c (s_comps s) = true /\ exists st, In st (s_strata s) /\ c' = stratify_comp c (s_name s) st
                                                          /\ v' = fmul O v (split_of O p s st))
       \/ (has_name_in_list c (s_comps s) = false /\ c' = c /\ v' = v)).
Proof. exact sv_spec_value. Qed.
Print Assumptions C06_value_partial.

Theorem C06_same_compartments_partial :
  forall (O : NumOps) (p : env O) s cvs, map fst (sv_spec O p s cvs) = stratify_comps s (map fst cvs).
Proof. exact sv_spec_comps. Qed.
Print Assumptions C06_same_compartments_partial.

(* splits that sum to one preserve every original compartment's total, and the grand total - for
   literal, parameterised and function-valued splits alike (split_of evaluates any expression) *)
Theorem C06_totals_partial :
  forall (O : NumOps) (T : NumTheory O) (p : env O) s n cvs,
    splits_sum_to_one O p s -> total_named O n (sv_spec O p s cvs) = total_named O n cvs.
Proof. exact sv_spec_total. Qed.
Print Assumptions C06_totals_partial.

Theorem C06_grand_total_partial :
  forall (O : NumOps) (T : NumTheory O) (p : env O) s cvs,
    splits_sum_to_one O p s -> fsum O (map snd (sv_spec O p s cvs)) = fsum O (map snd cvs).
Proof. exact sv_spec_grand_total. Qed.
Print Assumptions C06_grand_total_partial.

(* the scatter through the index arrays computes exactly that specification: for every stratification
   (full or partial, any number of strata), compartment list and value vector *)
Theorem C06_scatter_is_spec :
  forall (O : NumOps) (p : env O) s (cs : list comp) (vals : list (F O)), List.length vals = List.length cs ->
    stratify_values O p s cs vals = map snd (sv_spec O p s (combine cs vals)).
Proof. exact stratify_values_spec. Qed.
Print Assumptions C06_scatter_is_spec.

(* the initial population is the declared distribution (0 for undeclared compartments) replayed through
   the recorded stratifications and adjustments, values and compartments staying aligned *)
Theorem C06_replay :
  forall (O : NumOps) (p : env O) (m : model),
    m_arraypop m = None ->
    initial_population O m p = map snd (fold_left (ip_step O p m) (m_actions m) (initial_pairs O p m)).
Proof. exact initial_population_replay. Qed.
Print Assumptions C06_replay.

(* without population-split adjustments the total population is the total of the declared distribution
   whenever every split sums to one (whatever the splits are given as) *)
Theorem C06_total :
  forall (O : NumOps) (T : NumTheory O) (p : env O) (m : model),
    m_arraypop m = None -> no_rebalance m ->
    Forall (splits_sum_to_one O p) (only_stratifications m) ->
    fsum O (initial_population O m p) = fsum O (map snd (initial_pairs O p m)).
Proof. exact initial_population_total. Qed.
Print Assumptions C06_total.

(* a population-split adjustment, index by index (pop is the population before it; the groups are the (name, other
   strata) of the compartments that carry the stratification and match the filter; the members of a group are the
   compartments with that name and those other strata; new_prop j is the new proportion of j's stratum):
   (1) a compartment outside every group, or whose stratum the adjustment does not name, keeps its value;
   (2) a member of a group g holds (total of g BEFORE the adjustment) x (the new proportion of its stratum) - totals
       are never taken from half-adjusted values;
   (3) hence a group whose members' new proportions add up to one keeps its total.
   In (2) and (3) the compartment is required to see one total only: it lies in one group, or in groups of equal total. *)
Theorem C06_rebalance :
  forall (O : NumOps) (T : NumTheory O) (p : env O) (m : model) (pop : list (F O)) sname filt props,
    (forall j, (j < List.length pop)%nat ->
        (forall g, In g (rb_groups m sname filt) -> existsb (Nat.eqb j) (members m g) = false \/ new_prop O p m sname props j = None) ->
        nth j (rebalance O p m pop sname filt props) (f0 O) = nth j pop (f0 O))
    /\ (forall g j pr, (j < List.length pop)%nat ->
        In g (rb_groups m sname filt) -> existsb (Nat.eqb j) (members m g) = true -> new_prop O p m sname props j = Some pr ->
        (forall g', In g' (rb_groups m sname filt) -> existsb (Nat.eqb j) (members m g') = true ->
                    group_total O m pop g' = group_total O m pop g) ->
        nth j (rebalance O p m pop sname filt props) (f0 O) = fmul O (group_total O m pop g) pr)
    /\ (forall g prs,
        In g (rb_groups m sname filt) -> (forall j, In j (members m g) -> (j < List.length pop)%nat) ->
        map (new_prop O p m sname props) (members m g) = map Some prs ->
        (forall j g', In j (members m g) -> In g' (rb_groups m sname filt) -> existsb (Nat.eqb j) (members m g') = true ->
                      group_total O m pop g' = group_total O m pop g) ->
        fsum O prs = f1 O ->
        fsum O (gather (f0 O) (rebalance O p m pop sname filt props) (members m g)) = group_total O m pop g).
Proof.
  intros O T p m pop sname filt props. split; [|split].
  - intros j Hj H. apply (rebalance_frame O p m pop sname filt props j Hj H).
  - intros g j pr Hj Hg Hm Hp Hu. apply (rebalance_member O p m pop sname filt props g j pr Hj Hg Hm Hp Hu).
  - intros g prs Hg Hlt Hp Hu H1. apply (rebalance_group_total O T p m pop sname filt props g prs Hg Hlt Hp Hu H1).
Qed.
Print Assumptions C06_rebalance.

(* ... and on every model built through the API the side condition holds: a member of a group holds the group's total
   (before the adjustment) times the new proportion of its stratum, and a group whose members' new proportions add up
   to one keeps its total *)
Theorem C06_rebalance_built :
  forall (O : NumOps) (T : NumTheory O) t0 t1 h comps inf ops m (p : env O) (pop : list (F O)) sname filt props,
    build_ok t0 t1 h comps inf ops = Some m -> List.length pop = List.length (m_comps m) ->
    (forall g j pr, In g (rb_groups m sname filt) -> existsb (Nat.eqb j) (members m g) = true ->
                    new_prop O p m sname props j = Some pr ->
                    nth j (rebalance O p m pop sname filt props) (f0 O) = fmul O (group_total O m pop g) pr)
    /\ (forall g prs, In g (rb_groups m sname filt) ->
                      map (new_prop O p m sname props) (members m g) = map Some prs -> fsum O prs = f1 O ->
                      fsum O (gather (f0 O) (rebalance O p m pop sname filt props) (members m g)) = group_total O m pop g).
Proof. intros O T. exact (rebalance_built O T). Qed.
Print Assumptions C06_rebalance_built.

(* a whole-population array supplied as a graph object is used verbatim *)
Theorem C06_array_verbatim :
  forall (O : NumOps) (m : model) (p : env O) arr,
    m_arraypop m = Some arr -> initial_population O m p = map (static_eval O p) arr.
Proof. intros O m p arr H. unfold initial_population. rewrite H. reflexivity. Qed.
Print Assumptions C06_array_verbatim.

(* the first row of the outputs is this initial population for the fixed-step solvers *)
Theorem C06_row0 :
  forall (O : NumOps) (step : rhs O -> F O -> F O -> list (F O) -> list (F O)) f t0 h y0 n d,
    nth 0 (solve_fixed O step f t0 h y0 n) d = y0.
Proof. intros. unfold solve_fixed. apply iterate_steps_row0. Qed.
Print Assumptions C06_row0.

(* non-vacuity: the example model: S = 900 split 5/8, 3/8; I = 100 *)
Example C06_nonvacuous :
  map this (initial_population QcOps ex_m ex_env) = [(1125#2); (675#2); (125#2); (75#2); 0; 0]%Q
  /\ m_arraypop ex_m = None /\ no_rebalance ex_m
  /\ only_stratifications ex_m = [ex_age] /\ splits_sum_to_one QcOps ex_env ex_age.
Proof.
  split; [vm_compute; reflexivity|]. split; [reflexivity|]. split; [|split].
  - unfold no_rebalance. change (m_actions ex_m) with [AStratify ex_age]. repeat constructor.
  - reflexivity.
  - unfold splits_sum_to_one. apply Qc_is_canon. vm_compute. reflexivity.
Qed.

(* non-vacuity of C06_rebalance on the example model: three groups (S, I, R), each with its two age strata as members,
   every compartment in exactly one group; rebalancing 900 people of S to 1/4 : 3/4 gives 225 and 675 *)
Example C06_rebalance_nonvacuous :
  let pop := initial_population QcOps ex_m ex_env in
  let props := [("y"%string, EConst (1#4)); ("o"%string, EConst (3#4))] in
  map (members ex_m) (rb_groups ex_m "age" []) = [[0; 1]; [2; 3]; [4; 5]]%nat
  /\ map this (rebalance QcOps ex_env ex_m pop "age" [] props) = [225; 675; 25; 75; 0; 0]%Q
  /\ map (fun j => option_map this (new_prop QcOps ex_env ex_m "age" props j)) [0; 1]%nat = [Some (1#4); Some (3#4)]%Q.
Proof. vm_compute. repeat split. Qed.
