(* C08 - Each derived output equals its definition applied to the solved trajectory.
   Statements only; proofs in Proofs/DerivedProofs.v and Proofs/SelectProofs.v. *)
From Coq Require Import QArith Qcanon List String Bool.
Import ListNotations.
From S2 Require Import Base.Num Base.Arr Model.Expr Model.Struct Model.Derived Model.Program Model.Run
     Spec.SelectSpec Proofs.NumQc Proofs.SelectProofs Proofs.DerivedProofs Props.Examples.

(* compartment outputs: at each time the sum of the values of the selected compartments;
   raw flow outputs: the sum of the rates of the selected flows (selection = C13) *)
Theorem C08_compartment :
  forall (O : NumOps) (m : model) p n outputs flows cvs acc names filt,
    eval_request O m p n outputs flows cvs acc (RComp names filt)
    = Ok (map (fun row => fsum O (gather (f0 O) row (find_indices (fun c => do_comp_match c names filt) (m_comps m)))) outputs).
Proof. intros. reflexivity. Qed.
Print Assumptions C08_compartment.

Theorem C08_flow_raw :
  forall (O : NumOps) (m : model) p n outputs flows cvs acc name sf df,
    eval_request O m p n outputs flows cvs acc (RFlow name sf df true)
    = Ok (map (fun row => fsum O (gather (f0 O) row (find_indices (fun f => do_flow_match f name sf df) (m_flows m)))) flows).
Proof. intros. reflexivity. Qed.
Print Assumptions C08_flow_raw.

(* non-raw flow outputs: the first raw value unchanged, then the average of consecutive raw values *)
Theorem C08_flow_midpoint :
  forall (O : NumOps) (vals : list (F O)),
    nth 0 (midpoint_output O vals) (f0 O) = nth 0 vals (f0 O)
    /\ List.length (midpoint_output O vals) = List.length vals
    /\ forall i, (S i < List.length vals)%nat ->
         nth (S i) (midpoint_output O vals) (f0 O)
         = fmul O (fadd O (nth (S i) vals (f0 O)) (nth i vals (f0 O))) (half O).
Proof. exact midpoint_output_spec. Qed.
Print Assumptions C08_flow_midpoint.

(* cumulative outputs: the running sum of the source; with a start time, zero before the start
   index and the running sum from it *)
Theorem C08_cumulative :
  forall (O : NumOps) (T : NumTheory O) (l : list (F O)) (i : nat),
    (i < List.length l)%nat -> nth i (cumsum O l) (f0 O) = fsum O (firstn (S i) l).
Proof. exact cumsum_spec. Qed.
Print Assumptions C08_cumulative.

Theorem C08_cumulative_from :
  forall (O : NumOps) (T : NumTheory O) (start : nat) (l : list (F O)) (i : nat),
    (start <= List.length l)%nat -> (i < List.length l)%nat ->
    nth i (indexed_cumsum O start l) (f0 O)
    = if Nat.ltb i start then f0 O else fsum O (firstn (S (i - start)) (skipn start l)).
Proof. exact indexed_cumsum_spec. Qed.
Print Assumptions C08_cumulative_from.

(* chaining to any depth: in the final value map, every evaluated request equals its definition
   (aggregate = sum of its sources, cumulative = running sum of its source, function output = the
   function applied to its source series and parameters, computed value = the series of the
   computed process) applied to the final values of its sources *)
Theorem C08_defining_equation :
  forall (O : NumOps) (m : model) p n outputs flows cvs N reqs r,
    NoDup (req_names reqs) ->
    (forall pre name rq sv post, reqs = pre ++ (name, (rq, sv)) :: post ->
        forall s, In s (request_sources rq) -> ~ In s (req_names ((name, (rq, sv)) :: post))) ->
    eval_requests O m p n outputs flows cvs N reqs [] = Ok r ->
    forall name rq sv, In (name, (rq, sv)) reqs -> mem_str name N = true ->
      exists v, assoc name r = Some v /\ eval_request O m p n outputs flows cvs r rq = Ok v.
Proof.
  intros O m p n outputs flows cvs N reqs r Hnd Hsrc E. apply (defining_equation O m p n outputs flows cvs N reqs [] r); auto.
Qed.
Print Assumptions C08_defining_equation.

(* non-vacuity: derived outputs of the example model after an Euler run: "total" = incidence + prev
   and "cum" = running sum of incidence, at every time *)
Example C08_nonvacuous :
  match run_model QcOps ex_m2 Euler ex_env with
  | Ok a =>
      let d := rr_derived QcOps a in
      let get k := match assoc k d with Some s => s | None => [] end in
      map this (get "total"%string) = map this (vadd QcOps (get "incidence"%string) (get "prev"%string))
      /\ map this (get "cum"%string) = map this (cumsum QcOps (get "incidence"%string))
      /\ List.length (get "prev"%string) = 3%nat /\ this (nth 1 (get "incidence"%string) 0%Qc) <> 0%Q
  | _ => False
  end.
Proof. vm_compute. split; [reflexivity|]. split; [reflexivity|]. split; [reflexivity|discriminate]. Qed.
