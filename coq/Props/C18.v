(* C18 - No flow draws people out of an empty compartment.
   Statements only; proofs in Proofs/PositivityProofs.v. *)
From Coq Require Import QArith Qcanon List String Bool.
Import ListNotations.
From S2 Require Import Base.Num Base.Arr Model.Expr Model.Struct Model.Rates Spec.RatesSpec
     Proofs.NumQc Proofs.RatesProofs Proofs.BuildProofs Proofs.PositivityProofs Proofs.PositivityTraj Model.Solvers Props.Examples.

(* all faces of the orthant, all models the backend accepts: with non-negative weights (rates with
   their adjustments) and force-of-infection multipliers (C05: non-negative mixing, infectiousness
   and positive category populations), and no absolute-number outflow from compartment s, the rate
   of change of s is non-negative whenever s is empty or marginally negative - whatever the other
   compartments hold (negative values elsewhere count as zero) *)
Theorem C18_quasi_positive :
  forall (O : NumOps) (T : NumTheory O) (m : model) (b : backend) (p : env O) (t : F O) (x0 : list (F O)) (s : nat),
    prepare_structural m = Ok b ->
    (forall f, In f (m_flows m) -> fle O T (f0 O) (weight_spec O p t (vclean O x0) f)) ->
    (forall k, fle O T (f0 O) (nth k (muls_of O m b p t x0) (f0 O))) ->
    (forall f, In f (m_flows m) -> flow_shape f) ->
    (s < List.length (m_comps m))%nat -> List.length x0 = List.length (m_comps m) ->
    fle O T (nth s x0 (f0 O)) (f0 O) ->
    (forall f c, In f (m_flows m) -> f_src f = Some c -> comp_index (m_comps m) c = s -> fkind_eqb (f_kind f) KAbs = false) ->
    fle O T (f0 O) (nth s (get_comp_rates O m b p t x0) (f0 O)).
Proof. intros O T m b p t x0 s Hb Hw Hm Hs. exact (quasi_positive O T m b p t x0 Hb Hw Hm Hs s). Qed.
Print Assumptions C18_quasi_positive.

(* every flow's rate is non-negative under the same hypotheses (so inflows can only add) *)
Theorem C18_flow_rates_nonneg :
  forall (O : NumOps) (T : NumTheory O) (m : model) (b : backend) (p : env O) (t : F O) (x0 : list (F O)) (i : nat) (f : flow),
    (forall f, In f (m_flows m) -> fle O T (f0 O) (weight_spec O p t (vclean O x0) f)) ->
    (forall k, fle O T (f0 O) (nth k (muls_of O m b p t x0) (f0 O))) ->
    In f (m_flows m) ->
    fle O T (f0 O) (flow_rate_spec O m p t (vclean O x0) (muls_of O m b p t x0) i f).
Proof. intros O T m b p t x0 i f Hw Hm Hf. exact (flow_rate_nonneg O T m b p t x0 Hw Hm i f Hf). Qed.
Print Assumptions C18_flow_rates_nonneg.

(* discrete invariance: the s-th entry of an Euler step y + h f(t, y) from a state whose s-th entry is
   non-negative stays non-negative as long as h x (the total rate coefficient with which s is emptied:
   the sum over the flows leaving s of weight, times the force-of-infection multiplier for infection
   flows) <= 1 - for every model, time, parameters and state of the other compartments.
   partial: for RK4 and the adaptive solver "never below zero by more than the solver's tolerance" is a
   statement about their truncation error and is sampled (DESIGN 6.18) *)
Theorem C18_euler_step_nonneg :
  forall (O : NumOps) (T : NumTheory O) (m : model) (b : backend) (p : env O) (t : F O) (x0 : list (F O)) (s : nat) (h : F O),
    prepare_structural m = Ok b ->
    (forall f, In f (m_flows m) -> fle O T (f0 O) (weight_spec O p t (vclean O x0) f)) ->
    (forall k, fle O T (f0 O) (nth k (muls_of O m b p t x0) (f0 O))) ->
    (forall f, In f (m_flows m) -> flow_shape f) ->
    (s < List.length (m_comps m))%nat -> List.length x0 = List.length (m_comps m) ->
    fle O T (f0 O) (nth s x0 (f0 O)) ->
    (forall f c, In f (m_flows m) -> f_src f = Some c -> comp_index (m_comps m) c = s -> fkind_eqb (f_kind f) KAbs = false) ->
    fle O T (f0 O) h -> fle O T (fmul O h (exit_coeff O m b p t x0 s)) (f1 O) ->
    fle O T (f0 O) (fadd O (nth s x0 (f0 O)) (fmul O h (nth s (get_comp_rates O m b p t x0) (f0 O)))).
Proof. intros O T m b p t x0 s h Hb Hw Hm Hs. exact (euler_keeps_nonneg O T m b p t x0 Hb Hw Hm Hs s h). Qed.
Print Assumptions C18_euler_step_nonneg.

(* ... and along whole Euler runs of any length: if at every time and every non-negative state the weights and the
   force-of-infection multipliers are non-negative, no flow with a source is an absolute flow, and step x exit
   coefficient <= 1 for every compartment, then every row of the run from a non-negative initial state is
   non-negative (the hypothesis "rows stay non-negative" of C03_euler_rows_aggregate under these conditions) *)
Theorem C18_euler_trajectory_nonneg :
  forall (O : NumOps) (T : NumTheory O) (m : model) (b : backend) (p : env O) (h : F O),
    prepare_structural m = Ok b ->
    (forall f, In f (m_flows m) -> flow_shape f) ->
    (forall f c, In f (m_flows m) -> f_src f = Some c -> fkind_eqb (f_kind f) KAbs = false) ->
    fle O T (f0 O) h ->
    (forall t y f, List.length y = List.length (m_comps m) -> nonneg O T y -> In f (m_flows m) ->
                   fle O T (f0 O) (weight_spec O p t (vclean O y) f)) ->
    (forall t y k, List.length y = List.length (m_comps m) -> nonneg O T y -> fle O T (f0 O) (nth k (muls_of O m b p t y) (f0 O))) ->
    (forall t y s, List.length y = List.length (m_comps m) -> nonneg O T y -> (s < List.length (m_comps m))%nat ->
                   fle O T (fmul O h (exit_coeff O m b p t y s)) (f1 O)) ->
    forall (k : nat) (t : F O) (y : list (F O)), List.length y = List.length (m_comps m) -> nonneg O T y ->
      Forall (nonneg O T) (solve_fixed O (euler_step O) (fun t y => get_comp_rates O m b p t y) t h y k).
Proof. intros O T m b p h. exact (euler_trajectory_nonneg O T m b p h). Qed.
Print Assumptions C18_euler_trajectory_nonneg.

(* non-vacuity: example model with I (both strata) empty / slightly negative: its rates are >= 0 *)
Example C18_nonvacuous :
  let x := map Q2Qc [500; 300; 0; (-1#1048576); 50; 50]%Q in
  let r := get_comp_rates QcOps ex_m ex_b ex_env (Q2Qc 1) x in
  prepare_structural ex_m = Ok ex_b
  /\ Qle_bool 0 (this (nth 2 r 0%Qc)) = true /\ Qle_bool 0 (this (nth 3 r 0%Qc)) = true
  /\ Qle_bool (this (nth 0 r 0%Qc)) 0 = false.
Proof. split; [exact ex_backend_ok|]. vm_compute. repeat split. Qed.
