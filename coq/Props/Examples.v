(* Concrete models used by the non-vacuity examples next to the property theorems. *)
From Coq Require Import QArith Qcanon List String Bool.
Import ListNotations.
From S2 Require Import Base.Num Base.Arr Model.Expr Model.Struct Model.Rates Model.InitPop
     Model.Solvers Model.Derived Model.Run Model.Program.
Local Open Scope string_scope.

(* SIR with frequency-dependent infection, recovery, universal death, replacement births,
   stratified by age (2 strata, mixing matrix, adjusted recovery) *)
Definition ex_age : strat :=
  {| s_name := "age"; s_kind := SPlain; s_strata := ["y"; "o"]; s_comps := ["S"; "I"; "R"];
     s_split := [("y", EConst (5#8)); ("o", EConst (3#8))];
     s_fadj := [("rec", ([("y", Some (AMul (EConst 2))); ("o", None)], [], []))];
     s_iadj := [("I", [("y", Some (AMul (EConst (1#2)))); ("o", None)])];
     s_mix := Some [[EConst (1#4); EConst (3#8)]; [EConst (1#2); EConst (3#4)]] |}.

Definition ex_ops : list op :=
  [ OpPop [("S", EConst 900); ("I", EConst 100)];
    OpFlow (FlowSpec KInfFreq "inf" (EParam "beta") "S" "I" [] [] None false);
    OpFlow (FlowSpec KTrans "rec" (EConst (1#2)) "I" "R" [] [] None false);
    OpUDeath "d" (EConst (1#64));
    OpFlow (FlowSpec KRepl "b" (EConst 1) "" "S" [] [] None false);
    OpFlow (FlowSpec KImport "imp" (EAdd (EConst 1) ETime) "" "S" [] [] None true);
    OpStrat ex_age;
    OpRequest "incidence" (RFlow "inf" [] [] false) true;
    OpRequest "prev" (RComp ["I"] []) true;
    OpRequest "total" (RAgg ["incidence"; "prev"]) true;
    OpRequest "cum" (RCum "incidence" None) true ].

Definition ex_model : option model := build_ok 0 2 (1#2) ["S"; "I"; "R"] ["I"] ex_ops.

Definition ex_env : env QcOps := env_of QcOps [("beta", 2%Q)].
Definition ex_state : list Qc := map Q2Qc [500; 300; 60; 40; 50; 50]%Q.

Definition empty_model : model :=
  {| m_times := (0, 1, 1)%Q; m_comps := []; m_orig := []; m_infectious := []; m_flows := [];
     m_strats := []; m_mixcats := [[]]; m_strains := []; m_actions := []; m_initpop := None;
     m_arraypop := None; m_requests := []; m_whitelist := []; m_cvs := []; m_defaults := [];
     m_finalized := false |}.
Definition empty_backend : backend :=
  {| b_population_idx := []; b_non_pop_idx := []; b_crude_idx := []; b_repl_idx := [];
     b_death_idx := []; b_infectious_flow_idx := []; b_pos_map := []; b_neg_map := [];
     b_category_lookup := []; b_pop_cat_indexer := []; b_strain_infectious_idx := [];
     b_strain_category_idx := []; b_infect_strain_lookup := []; b_infect_cat_lookup := [];
     b_process := None |}.

Definition ex_m : model := match ex_model with Some m => m | None => empty_model end.
Definition ex_b : backend := match prepare_structural ex_m with Ok b => b | Err _ => empty_backend end.

Lemma ex_model_ok : ex_model = Some ex_m.
Proof. vm_compute. reflexivity. Qed.
Lemma ex_backend_ok : prepare_structural ex_m = Ok ex_b.
Proof. vm_compute. reflexivity. Qed.

Definition num_times_ex : nat := Model.Run.num_times ex_m.

(* the same model over two Euler steps (keeps the exact rational trajectories small) *)
Definition ex_model2 : option model := build_ok 0 1 (1#2) ["S"; "I"; "R"] ["I"] ex_ops.
Definition ex_m2 : model := match ex_model2 with Some m => m | None => empty_model end.
Lemma ex_model2_ok : ex_model2 = Some ex_m2.
Proof. vm_compute. reflexivity. Qed.

(* the examples are reachable through the build API (stated with explicit arguments so that the
   reachability theorems apply by first-order unification) *)
Lemma ex_build_ok : build_ok 0 2 (1#2) ["S"; "I"; "R"] ["I"] ex_ops = Some ex_m.
Proof. vm_compute. reflexivity. Qed.
Lemma ex_build2_ok : build_ok 0 1 (1#2) ["S"; "I"; "R"] ["I"] ex_ops = Some ex_m2.
Proof. vm_compute. reflexivity. Qed.

Definition env_of_ex (l : list (string * Q)) : env QcOps := env_of QcOps l.

Definition dflow_ex : flow := {| f_name := ""; f_kind := KTrans; f_src := None; f_dst := None; f_param := EConst 0; f_adjs := [] |}.
