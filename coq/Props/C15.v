(* C15 - Results are independent of ordering, labels, time origin and population scale.
   Statements only; proofs in Proofs/InvarianceProofs.v.
   PARTIAL: proved - flow-order invariance of every compartment's net rate (for any per-flow rate law),
   time-shift invariance of expressions, of the whole Euler / RK4 trajectory and of whole models (a model whose
   flow parameters, adjustments and mixing matrices do not mention time returns the same compartment values,
   at times moved by d, when its time span is moved by d; and the same build program over the moved time span
   builds exactly that moved model), the whole-model scaling law (the rate of every flow
   answers to a k-fold population by the factor of its kind; Euler rows scale by k along frequency-dependent
   runs, Euler and RK4 rows for models without infection), and the scaling
   identities (clipping commutes with k > 0, prevalence is scale invariant, sums are homogeneous).
   For whole models without infection flows, flow order (C15_flow_order_model) and compartment order
   (C15_compartment_order_model) are proved on get_comp_rates itself.  Two stratifications applied in either order give
   the same compartments (C15_stratification_order_compartments); listing strata in another order permutes the
   compartments (C15_strata_order_compartments) and the copies of every flow (C15_strata_order_flow_copies); renaming compartments commutes with stratifying
   (C15_renaming_compartments, C15_renaming_flow_copies).  The rest of the strata- / stratification-order equivariance of the build (flows,
   populations, trajectories), renaming, "flow added before = after an unadjusted stratification", and the order statements for models
   with infection flows are established by the metamorphic oracle and the correspondence only (DESIGN.md 6.15). *)
From Coq Require Import QArith Qcanon List String Bool Permutation.
Import ListNotations.
From S2 Require Import Base.Num Base.Arr Model.Expr Model.Struct Model.Solvers
     Model.Rates Model.Run Model.Program Proofs.NumQc Proofs.NumLemmas Proofs.InvarianceProofs Proofs.TimeShift Proofs.Scaling Proofs.ShiftBuild Proofs.BuildProofs Proofs.FlowOrder Proofs.AggregateAll Proofs.CompOrder Proofs.PopScale Proofs.StratCompsOrder Proofs.StratSwap Proofs.StratSwapApi Proofs.RenameFlows Model.InitPop Gen.SolversGen Props.Examples.

Theorem C15_flow_permutation :
  forall (O : NumOps) (T : NumTheory O) (rate : flow -> F O) (fl fl' : list flow) (c : comp),
    Permutation fl fl' -> net_rate O rate fl c = net_rate O rate fl' c.
Proof. exact net_rate_permutation. Qed.
Print Assumptions C15_flow_permutation.

(* ... on whole models without infection flows, in terms of what the runner computes: the model with its flows declared in
   another order (all else equal) has the same get_comp_rates - index arrays, application matrix and death totals are
   rebuilt for the new order, the result is the same vector *)
Theorem C15_flow_order_model :
  forall (O : NumOps) (T : NumTheory O) (m : model) (fl' : list flow) (b b' : backend) (p : env O) (t : F O) (x0 : list (F O)),
    Permutation (m_flows m) fl' -> wf m -> NoDup (m_comps m) ->
    (forall f, In f (m_flows m) -> is_infection (f_kind f) = false) ->
    prepare_structural m = Ok b -> prepare_structural (upd_flows m fl') = Ok b' ->
    get_comp_rates O (upd_flows m fl') b' p t x0 = get_comp_rates O m b p t x0.
Proof. intros O T. exact (flow_order_irrelevant O T). Qed.
Print Assumptions C15_flow_order_model.

(* ... and compartment order: two models (without infection flows, rates that do not read the state) with the same flows
   whose compartment lists are permutations of one another, evaluated at the same state - the state given as a
   non-negative function sigma of the compartment and laid out in each model's own order - give every compartment the
   same rate of change, found at that compartment's position in each model *)
Theorem C15_compartment_order_model :
  forall (O : NumOps) (T : NumTheory O) (m1 m2 : model) (b1 b2 : backend) (p : env O) (t : F O) (sigma : comp -> F O),
    m_flows m2 = m_flows m1 -> Permutation (m_comps m1) (m_comps m2) ->
    wf m1 -> wf m2 -> NoDup (m_comps m1) ->
    (forall f, In f (m_flows m1) -> ni_flow f) ->
    prepare_structural m1 = Ok b1 -> prepare_structural m2 = Ok b2 ->
    (forall c, fle O T (f0 O) (sigma c)) ->
    forall c, In c (m_comps m1) ->
      nth (comp_index (m_comps m2) c) (get_comp_rates O m2 b2 p t (layout O sigma m2)) (f0 O)
      = nth (comp_index (m_comps m1) c) (get_comp_rates O m1 b1 p t (layout O sigma m1)) (f0 O).
Proof. intros O T. exact (compartment_order_irrelevant O T). Qed.
Print Assumptions C15_compartment_order_model.

Theorem C15_time_free_inputs :
  forall (O : NumOps) (p : env O) (e : expr), time_free e = true -> forall t t' x, eval O p t x e = eval O p t' x e.
Proof. exact eval_time_free. Qed.
Print Assumptions C15_time_free_inputs.

Theorem C15_time_shift :
  forall (O : NumOps) (f : rhs O) h t0 t0' y0 k,
    (forall t t' y, f t y = f t' y) ->
    solve_fixed O (euler_step O) f t0 h y0 k = solve_fixed O (euler_step O) f t0' h y0 k
    /\ solve_fixed O (rk4_step O) f t0 h y0 k = solve_fixed O (rk4_step O) f t0' h y0 k.
Proof. intros O f h t0 t0' y0 k Hf. split; [apply time_shift_euler|apply time_shift_rk4]; exact Hf. Qed.
Print Assumptions C15_time_shift.

(* whole models: if no flow parameter, adjustment or mixing matrix mentions time, then (1) the rates are the same at
   every time, (2) moving the time span by d leaves every row of the compartment values unchanged, for both
   fixed-step solvers and any number of steps, and (3) the k-th model time moves by d *)
Theorem C15_time_shift_model :
  forall (O : NumOps) (T : NumTheory O) (m : model),
    model_time_free m = true ->
    (forall b (p : env O) t t' x, get_comp_rates O m b p t x = get_comp_rates O m b p t' x)
    /\ (forall (s : solver) (p pd pd' : env O) (d : Q) r r',
          run_model_gen O m s p pd = Ok r -> run_model_gen O (shift_times m d) s p pd' = Ok r' ->
          rr_outputs O r' = rr_outputs O r)
    /\ (forall (d : Q) k, (k < num_times m)%nat ->
          nth k (times_F O (shift_times m d)) (f0 O)
          = let '(t0, _, h) := m_times m in of_Q O (t0 + d + inject_Z (Z.of_nat k) * h)%Q).
Proof.
  intros O T m H. split; [intros; apply (get_comp_rates_time_free O T); exact H|].
  split; [intros s p pd pd' d r r'; apply (run_time_shift O T); exact H | intros d k; apply shifted_times_grid].
Qed.
Print Assumptions C15_time_shift_model.

Theorem C15_scaling_partial :
  forall (O : NumOps) (T : NumTheory O) (k : F O),
    fpos O T k ->
    (forall v, fclean O (fmul O k v) = fmul O k (fclean O v))
    /\ (forall P N, N <> f0 O -> fdiv O (fmul O k P) (fmul O k N) = fdiv O P N)
    /\ (forall l, fsum O (map (fmul O k) l) = fmul O k (fsum O l)).
Proof.
  intros O T k Hk. split; [intro v; apply (fclean_scale O T); exact Hk|].
  split; [intros P N HN; apply (prevalence_scale_invariant O T); [apply (fpos_neq_0 O T); exact Hk|exact HN] | apply (fsum_scale O T)].
Qed.
Print Assumptions C15_scaling_partial.

(* ... and the shifted model is what the same build program builds over the shifted time span: no operation of the
   build API reads the times after the constructor (every operation commutes with replacing them), the constructor's
   checks (end after start, timestep divides the span) are invariant under the shift, and errors, where there are
   any, are the same errors at the same calls *)
Theorem C15_build_time_shift :
  forall t0 t1 h d comps inf ops,
    build (t0 + d) (t1 + d) h comps inf ops
    = let (om, e) := build t0 t1 h comps inf ops in (option_map (fun m => shift_times m d) om, e).
Proof. exact build_time_shift. Qed.
Print Assumptions C15_build_time_shift.

(* population scale at the initial state: the model whose declared distribution is multiplied by k (every value, literal,
   parameter or function alike) starts from k times the initial population - through any number of stratifications with
   any splits, and any population-split adjustments (stratification splits and adjustments are linear in the values) *)
Theorem C15_initial_population_scales :
  forall (O : NumOps) (T : NumTheory O) (p : env O) (m : model) (kq : Q),
    m_arraypop m = None ->
    initial_population O (scale_dist m kq) p = vscale O (of_Q O kq) (initial_population O m p).
Proof. intros O T. exact (initial_population_scales O T). Qed.
Print Assumptions C15_initial_population_scales.

(* whole models, population scale.  For a model whose rate inputs do not mention the compartment values, and k > 0:
   (1) the rate of the flow at position i at the state k * x is [flow_scale_factor] times its rate at x: k for
       transition, death, crude-birth and replacement-birth flows, k for infection flows under frequency-dependent
       transmission and k * k under density-dependent transmission (k once the contact rate is divided by k), and 1
       for absolute inflows (importation / absolute flows are scaled through their own parameter);
   (2) without absolute inflows and with frequency-dependent (or no) transmission every compartment's rate of change
       is k times as large;
   (3) hence every row of an Euler run started from k * y0 is k times the row of the run started from y0 (as long as
       no mixing category is empty along the run, frequency-dependent case), and
   (4) for models without infection flows the same holds for Euler and RK4 without any side condition. *)
Theorem C15_scaling_model :
  forall (O : NumOps) (T : NumTheory O) (m : model) (b : backend) (p : env O) (k : F O),
    prepare_structural m = Ok b -> fpos O T k -> model_state_free m = true ->
    (forall t x0 i,
        (b_process b = Some true -> categories_nonempty O b (vclean O x0)) -> (i < List.length (m_flows m))%nat ->
        nth i (get_flow_rates O m b p t (vscale O k x0)) (f0 O)
        = fmul O (flow_scale_factor O b k (f_kind (nth i (m_flows m) Proofs.WeightProofs.dflow)))
                 (nth i (get_flow_rates O m b p t x0) (f0 O)))
    /\ (homogeneous_kinds m = true -> b_process b <> Some false ->
        (forall t x0, (b_process b = Some true -> categories_nonempty O b (vclean O x0)) ->
                      get_comp_rates O m b p t (vscale O k x0) = vscale O k (get_comp_rates O m b p t x0))
        /\ (forall t0 h y0 n,
              Forall (fun row => b_process b = Some true -> categories_nonempty O b (vclean O row))
                     (solve_fixed O (gen_euler_step O) (fun t y => get_comp_rates O m b p t y) t0 h y0 n) ->
              solve_fixed O (gen_euler_step O) (fun t y => get_comp_rates O m b p t y) t0 h (vscale O k y0) n
              = map (vscale O k) (solve_fixed O (gen_euler_step O) (fun t y => get_comp_rates O m b p t y) t0 h y0 n))
        /\ (b_process b = None -> forall t0 h y0 n (s : bool),
              solve_fixed O (if s then gen_euler_step O else gen_rk4_step O) (fun t y => get_comp_rates O m b p t y) t0 h (vscale O k y0) n
              = map (vscale O k) (solve_fixed O (if s then gen_euler_step O else gen_rk4_step O)
                                              (fun t y => get_comp_rates O m b p t y) t0 h y0 n))).
Proof.
  intros O T m b p k Hb Hk Hsf. split.
  - intros t x0 i Hc Hi. apply (flow_rate_scaling O T); assumption.
  - intros Hh Hnd. split; [|split].
    + intros t x0 Hc. apply (comp_rates_scaling O T); assumption.
    + intros t0 h y0 n HP. apply (model_euler_scaling O T); assumption.
    + intros Hn t0 h y0 n s. apply (model_linear_scaling O T); assumption.
Qed.
Print Assumptions C15_scaling_model.

(* a stratification uses the list of the compartments it stratifies only as a set: for any list l' with the same members
   the stratified compartments, the copies of every flow, the layout indices of the initial population, the "every
   compartment is covered" test of mixing-matrix and age stratifications and the "known compartments" test are the
   same - so the order in which a stratification lists its compartments, relative to the order in which the model declares
   them, changes nothing (the repair 8c8093e of /repo made the full-stratification test a comparison of sets) *)
Theorem C15_stratification_lists_compartments_in_any_order :
  forall (s : strat) (l' : list string),
    same_members (s_comps s) l' ->
    (forall cs, stratify_comps (set_comps s l') cs = stratify_comps s cs)
    /\ (forall f, stratify_flow (set_comps s l') f = stratify_flow s f)
    /\ (forall cs, strat_indices (set_comps s l') cs = strat_indices s cs)
    /\ (forall orig, set_eq_str (s_comps (set_comps s l')) orig = set_eq_str (s_comps s) orig)
    /\ (forall orig, forallb (fun c => mem_str c orig) (s_comps (set_comps s l')) = forallb (fun c => mem_str c orig) (s_comps s)).
Proof.
  intros s l' Hm.
  exact (conj (stratify_comps_same s l' Hm) (conj (stratify_flow_same s l' Hm) (conj (strat_indices_same s l' Hm)
        (conj (full_test_same s l' Hm) (known_test_same s l' Hm))))).
Qed.
Print Assumptions C15_stratification_lists_compartments_in_any_order.

Example C15_nonvacuous :
  time_free (EAdd (EParam "beta"%string) (EMul (EComp 1) (EConst (1#2)))) = true
  /\ time_free (EAdd ETime (EConst 1)) = false
  /\ fclean QcOps (Q2Qc 3 * Q2Qc (-2#1))%Qc = (Q2Qc 3 * fclean QcOps (Q2Qc (-2#1)))%Qc.
Proof. repeat split. Qed.

(* non-vacuity of the whole-model statement: a built SIR model with a parameterised contact rate has no
   explicit time dependence, and both it and its copy moved by 5/2 run *)
Definition tf_model : option model :=
  build_ok 0 1 (1#2) ["S"; "I"; "R"]%string ["I"]%string
    [ OpPop [("S"%string, EConst 90); ("I"%string, EConst 10)];
      OpFlow (FlowSpec KInfFreq "inf" (EParam "beta") "S" "I" [] [] None false);
      OpFlow (FlowSpec KTrans "rec" (EConst (1#2)) "I" "R" [] [] None false) ].
Fixpoint lbeq {A} (e : A -> A -> bool) (l1 l2 : list A) : bool :=
  match l1, l2 with
  | [], [] => true
  | x :: l1', y :: l2' => e x y && lbeq e l1' l2'
  | _, _ => false
  end.
(* (a boolean check, so that the kernel re-checks one vm_compute and not two whole trajectories as terms) *)
Definition tf_check : bool :=
  match tf_model with
  | Some m =>
      model_time_free m
      && match run_model_gen QcOps m Euler ex_env ex_env, run_model_gen QcOps (shift_times m (5#2)) Euler ex_env ex_env with
         | Ok r, Ok r' => lbeq (lbeq Qc_eq_bool) (rr_outputs QcOps r') (rr_outputs QcOps r)
                          && Nat.eqb (List.length (rr_outputs QcOps r)) 3
         | _, _ => false
         end
  | None => false
  end.
Example C15_time_shift_nonvacuous : tf_check = true.
Proof. vm_compute. reflexivity. Qed.

(* non-vacuity of the whole-model scaling statement: the time-free SIR model above is also state-free, has only
   homogeneous flow kinds and frequency-dependent transmission, and its mixing category is not empty at the start *)
Example C15_scaling_nonvacuous :
  match tf_model with
  | Some m => match prepare_structural m with
              | Ok b => model_state_free m = true /\ homogeneous_kinds m = true /\ b_process b = Some true
                        /\ categories_nonempty QcOps b (vclean QcOps (map Q2Qc [90; 10; 0]%Q))
              | Err _ => False
              end
  | None => False
  end.
Proof.
  vm_compute. repeat split. constructor; [|constructor]. intro H. discriminate H.
Qed.

(* two stratifications with different names, applied in either order, produce the same compartments: as many, and every
   compartment of one order is a compartment of the other with the same name and the same stratum for every
   stratification (the order of its strata pairs is presentation) - for every compartment list, full or partial
   stratifications, any strata *)
Theorem C15_stratification_order_compartments :
  forall s1 s2 cs,
    s_name s1 <> s_name s2 ->
    let ab := stratify_comps s2 (stratify_comps s1 cs) in
    let ba := stratify_comps s1 (stratify_comps s2 cs) in
    List.length ab = List.length ba
    /\ (forall x, In x ab -> exists y, In y ba /\ comp_same x y)
    /\ (forall y, In y ba -> exists x, In x ab /\ comp_same y x).
Proof.
  intros s1 s2 cs Hn. cbv zeta.
  destruct (stratifications_commute_on_compartments s1 s2 cs Hn) as [L M].
  destruct (stratifications_commute_on_compartments s2 s1 cs (fun E => Hn (eq_sym E))) as [_ M'].
  split; [exact L|]. split; [exact M | exact M'].
Qed.
Print Assumptions C15_stratification_order_compartments.

Example C15_stratification_order_nonvacuous :
  let s1 := {| s_name := "age"; s_kind := SPlain; s_strata := ["y"; "o"]; s_comps := ["S"; "I"]; s_split := []; s_fadj := []; s_iadj := []; s_mix := None |}%string in
  let s2 := {| s_name := "loc"; s_kind := SPlain; s_strata := ["u"; "r"; "x"]; s_comps := ["I"; "R"]; s_split := []; s_fadj := []; s_iadj := []; s_mix := None |}%string in
  let cs := map (fun n => {| c_name := n; c_strata := [] |}) ["S"; "I"; "R"]%string in
  List.length (stratify_comps s2 (stratify_comps s1 cs)) = 11%nat
  /\ stratify_comps s2 (stratify_comps s1 cs) <> stratify_comps s1 (stratify_comps s2 cs).
Proof. split; [vm_compute; reflexivity | vm_compute; intro H; discriminate H]. Qed.

(* listing the strata of a stratification in another order permutes the compartments it produces and changes nothing
   else - for every compartment list and every permutation of the strata *)
Theorem C15_strata_order_compartments :
  forall s s' cs,
    s_name s' = s_name s -> s_comps s' = s_comps s -> Permutation (s_strata s) (s_strata s') ->
    Permutation (stratify_comps s cs) (stratify_comps s' cs).
Proof. exact strata_order_permutes_compartments. Qed.
Print Assumptions C15_strata_order_compartments.

(* an injective renaming of the compartment names commutes with stratifying: stratifying the renamed compartments by the
   stratification that lists the renamed names gives the renamed compartments, in the same order *)
Theorem C15_renaming_compartments :
  forall f s s' cs,
    (forall a b : string, f a = f b -> a = b) ->
    s_name s' = s_name s -> s_strata s' = s_strata s -> s_comps s' = map f (s_comps s) ->
    stratify_comps s' (map (rename_comp f) cs) = map (rename_comp f) (stratify_comps s cs).
Proof. exact renaming_commutes_with_stratification. Qed.
Print Assumptions C15_renaming_compartments.

(* ... and the copies a stratification makes of a flow: listing its strata in another order permutes the copies (each
   with the same endpoints, parameter and adjustments as before) - for every flow kind, with or without adjustments *)
Theorem C15_strata_order_flow_copies :
  forall nm k l l' cmps sp fa ia mx f fl,
    Permutation l l' ->
    stratify_flow {| s_name := nm; s_kind := k; s_strata := l; s_comps := cmps; s_split := sp; s_fadj := fa; s_iadj := ia; s_mix := mx |} f = Ok fl ->
    exists fl', stratify_flow {| s_name := nm; s_kind := k; s_strata := l'; s_comps := cmps; s_split := sp; s_fadj := fa; s_iadj := ia; s_mix := mx |} f = Ok fl'
                /\ Permutation fl fl'.
Proof. exact strata_order_permutes_flow_copies. Qed.
Print Assumptions C15_strata_order_flow_copies.

(* ... through the API: whenever two stratifications are accepted in both orders (stratify_with; their names differ
   because a duplicated name is refused), the two models have equally many compartments, and every compartment of one is
   a compartment of the other with the same name and the same stratum for every stratification - on every model *)
Theorem C15_stratification_order_api :
  forall m s1 s2 m1 m12 m2 m21,
    stratify_with m s1 = Ok m1 -> stratify_with m1 s2 = Ok m12 ->
    stratify_with m s2 = Ok m2 -> stratify_with m2 s1 = Ok m21 ->
    List.length (m_comps m12) = List.length (m_comps m21)
    /\ (forall x, In x (m_comps m12) -> exists y, In y (m_comps m21) /\ comp_same x y)
    /\ (forall y, In y (m_comps m21) -> exists x, In x (m_comps m12) /\ comp_same y x).
Proof. exact api_stratification_order. Qed.
Print Assumptions C15_stratification_order_api.

Example C15_stratification_order_api_nonvacuous :
  let s1 := {| s_name := "risk"; s_kind := SPlain; s_strata := ["lo"; "hi"]; s_comps := ["S"; "I"]; s_split := []; s_fadj := []; s_iadj := []; s_mix := None |}%string in
  let s2 := {| s_name := "loc"; s_kind := SPlain; s_strata := ["u"; "r"; "x"]; s_comps := ["I"; "R"]; s_split := []; s_fadj := []; s_iadj := []; s_mix := None |}%string in
  match build_ok 0 2 1 ["S"; "I"; "R"]%string ["I"]%string
                 [OpPop [("S", EConst 90); ("I", EConst 10)]%string;
                  OpFlow (FlowSpec KInfFreq "inf" (EConst 1) "S" "I" [] [] None false);
                  OpFlow (FlowSpec KTrans "rec" (EConst (1#2)) "I" "R" [] [] None false)]%string with
  | Some m => match stratify_with m s1, stratify_with m s2 with
              | Ok m1, Ok m2 => match stratify_with m1 s2, stratify_with m2 s1 with
                                | Ok m12, Ok m21 => List.length (m_comps m12) = 11%nat /\ m_comps m12 <> m_comps m21
                                | _, _ => False
                                end
              | _, _ => False
              end
  | None => False
  end.
Proof. vm_compute. split; [reflexivity | intro H; discriminate H]. Qed.

(* ... and with the copies a stratification makes of a flow: the copies of the renamed flow under the stratification that
   lists the renamed compartments are the renamed copies, in the same order, with the same parameters and adjustments
   (and it is refused exactly when the original is) - every flow kind, with or without adjustment requests *)
Theorem C15_renaming_flow_copies :
  forall f s s' g,
    (forall a b : string, f a = f b -> a = b) ->
    s_name s' = s_name s -> s_kind s' = s_kind s -> s_strata s' = s_strata s -> s_comps s' = map f (s_comps s) -> s_fadj s' = s_fadj s ->
    stratify_flow s' (rename_flow f g)
    = match stratify_flow s g with Ok fl => Ok (map (rename_flow f) fl) | Err e => Err e end.
Proof. exact renaming_commutes_with_flow_copies. Qed.
Print Assumptions C15_renaming_flow_copies.

(* ... through the API, for ordinary and strain stratifications (the library sorts age strata itself): the same
   stratification with its strata listed in another order gives a model whose compartments are a permutation *)
Theorem C15_strata_order_api :
  forall m s s' m1 m1',
    s_kind s <> SAge -> s_kind s' <> SAge ->
    s_name s' = s_name s -> s_comps s' = s_comps s -> Permutation (s_strata s) (s_strata s') ->
    stratify_with m s = Ok m1 -> stratify_with m s' = Ok m1' ->
    Permutation (m_comps m1) (m_comps m1').
Proof. exact api_strata_order. Qed.
Print Assumptions C15_strata_order_api.
