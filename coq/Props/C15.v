(* C15 - Results are independent of ordering, labels, time origin and population scale.
   Statements only; proofs in Proofs/InvarianceProofs.v.
   PARTIAL: proved - flow-order invariance of every compartment's net rate (for any per-flow rate law),
   time-shift invariance of expressions and of the whole Euler / RK4 trajectory, and the scaling
   identities (clipping commutes with k > 0, prevalence is scale invariant, sums are homogeneous).
   Compartment / strata / stratification-order equivariance of the build, renaming and
   "flow added before = after an unadjusted stratification" are established by the metamorphic
   oracle and the correspondence only (DESIGN.md 6.15). *)
From Coq Require Import QArith Qcanon List String Bool Permutation.
Import ListNotations.
From S2 Require Import Base.Num Base.Arr Model.Expr Model.Struct Model.Solvers
     Proofs.NumQc Proofs.NumLemmas Proofs.InvarianceProofs Props.Examples.

Theorem C15_flow_permutation :
  forall (O : NumOps) (T : NumTheory O) (rate : flow -> F O) (fl fl' : list flow) (c : comp),
    Permutation fl fl' -> net_rate O rate fl c = net_rate O rate fl' c.
Proof. exact net_rate_permutation. Qed.
Print Assumptions C15_flow_permutation.

Theorem C15_time_free_inputs :
  forall (O : NumOps) (p : env O) (e : expr), time_free e = true -> forall t t' x, eval O p t x e = eval O p t' x e.
Proof. exact eval_time_free. Qed.
Print Assumptions C15_time_free_inputs.

Theorem C15_time_shift :
  forall (O : NumOps) (f : rhs O) h t0 t0' y0 k,
    (forall t t' y, f t y = f t' y) ->
    solve_fixed O (euler_step O) f t0 h y0 k = solve_fixed O (euler_step O) f t0' h y0 k
    /\ solve_fixed O (rk4_step O) f t0 h y0 k = solve_fixed O (rk4_step O) f t0' h y0 k.
Proof. intros O f h t0 t0' y0 k Hf. split; [apply time_shift_euler|apply time_shift_rk4]; exact Hf. Qed.
Print Assumptions C15_time_shift.

Theorem C15_scaling_partial :
  forall (O : NumOps) (T : NumTheory O) (k : F O),
    fpos O T k ->
    (forall v, fclean O (fmul O k v) = fmul O k (fclean O v))
    /\ (forall P N, N <> f0 O -> fdiv O (fmul O k P) (fmul O k N) = fdiv O P N)
    /\ (forall l, fsum O (map (fmul O k) l) = fmul O k (fsum O l)).
Proof.
  intros O T k Hk. split; [intro v; apply (fclean_scale O T); exact Hk|].
  split; [intros P N HN; apply (prevalence_scale_invariant O T); [apply (fpos_neq_0 O T); exact Hk|exact HN] | apply (fsum_scale O T)].
Qed.
Print Assumptions C15_scaling_partial.

Example C15_nonvacuous :
  time_free (EAdd (EParam "beta"%string) (EMul (EComp 1) (EConst (1#2)))) = true
  /\ time_free (EAdd ETime (EConst 1)) = false
  /\ fclean QcOps (Q2Qc 3 * Q2Qc (-2#1))%Qc = (Q2Qc 3 * fclean QcOps (Q2Qc (-2#1)))%Qc.
Proof. repeat split. Qed.
