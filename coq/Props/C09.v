(* C09 - Named parameters are interchangeable with the literal values they stand for.
   Statements only; proofs in Proofs/ParamProofs.v and Proofs/ExprLemmas.v. *)
From Coq Require Import QArith Qcanon List String Bool.
Import ListNotations.
From S2 Require Import Base.Num Base.Arr Model.Expr Model.Struct Model.Rates Spec.RatesSpec
     Model.Run Model.Api Proofs.NumQc Proofs.ExprLemmas Proofs.ParamProofs Proofs.RunExt Proofs.InputsMinimal Proofs.ApiProofs Props.Examples.
From S2 Require Import Model.Program.

(* any expression (arithmetic, piecewise, interpolation, of parameters, time and state): replacing the
   named parameter k by the literal v = running with k := v *)
Theorem C09_substitution :
  forall (O : NumOps) (p : env O) (k : string) (v : Q) (e : expr) (t : F O) (x : list (F O)),
    p k = of_Q O v -> eval O p t x (subst k v e) = eval O p t x e.
Proof. exact eval_subst. Qed.
Print Assumptions C09_substitution.

(* ... lifted to a flow's whole adjustment chain *)
Theorem C09_flow_weight_substitution :
  forall (O : NumOps) (p : env O) k v t x f,
    p k = of_Q O v -> weight_spec O p t x (subst_flow k v f) = weight_spec O p t x f.
Proof. exact weight_subst. Qed.
Print Assumptions C09_flow_weight_substitution.

(* all 2^n partitions of the parameters into build-time-fixed and run-time-supplied at once *)
Theorem C09_staging :
  forall (O : NumOps) dyn base (rt : env O) t x e,
    eval O rt t x (freeze_expr dyn base e) = eval O (staged_env O dyn base rt) t x e.
Proof. exact freeze_correct. Qed.
Print Assumptions C09_staging.

Theorem C09_partition_irrelevant :
  forall (O : NumOps) dyn base (rt : env O) t x e,
    (forall k q, mem_str k dyn = false -> base k = Some q -> rt k = of_Q O q) ->
    eval O rt t x (freeze_expr dyn base e) = eval O rt t x e.
Proof. exact partition_irrelevant. Qed.
Print Assumptions C09_partition_irrelevant.

Theorem C09_defaults :
  forall defaults supplied k,
    assoc k (with_defaults defaults supplied)
    = match assoc k supplied with Some v => Some v | None => assoc k defaults end.
Proof. exact defaults_fill. Qed.
Print Assumptions C09_defaults.

(* the reported inputs are sound: two environments that agree on the parameters occurring in a
   flow give the same weight ("able to influence" is syntactic occurrence; semantic influence is
   undecidable and is sampled by the oracle) *)
Theorem C09_inputs_sound :
  forall (O : NumOps) (p q : env O) t x f,
    (forall k, In k (flow_params f) -> p k = q k) -> weight_spec O p t x f = weight_spec O q t x f.
Proof. exact weight_env_ext. Qed.
Print Assumptions C09_inputs_sound.

(* one run, one set of values: for every runner (any partition of the parameters into fixed-at-build and run-time, any
   default parameters, any values in the call) the derived-output functions see every parameter at the value the rates
   see.  What was fixed when the runner was built is fixed for the whole run; the call and the defaults only supply the
   rest.  (Before the repair of /repo recorded in known_findings.json the derived outputs took a fixed parameter from
   the call or from the defaults when one was present there.) *)
Theorem C09_derived_env_consistent :
  forall (O : NumOps) (r : runner) (p : params) (k : string),
    runner_env_derived O r p k = runner_env O r p k.
Proof. exact derived_env_consistent. Qed.
Print Assumptions C09_derived_env_consistent.

(* ... and for the whole run: two parameter sets that agree on model.get_input_parameters() give the
   same initial population, trajectory and derived outputs, for every model and both fixed-step
   solvers (so values supplied for other names, or left over from a build, cannot influence results) *)
Theorem C09_inputs_sufficient_for_the_run :
  forall (O : NumOps) (T : NumTheory O) (m : model) (s : solver) (p q : env O),
    (forall k, In k (input_parameters m) -> p k = q k) -> run_model O m s p = run_model O m s q.
Proof. exact input_parameters_sufficient. Qed.
Print Assumptions C09_inputs_sufficient_for_the_run.

(* "... exactly the set that is needed and ABLE TO INFLUENCE the results": the first half is the two theorems above; the
   second half is FALSE of the model, as it is of the library (known_findings.json, superseded-infectiousness-parameter;
   the check replays this witness on the implementation on every run).  The witness: SIR, stratification "age" multiplies
   the infectiousness of its young I by Parameter "m", stratification "loc" then overwrites the infectiousness of I in
   both of its strata.  The API builds it, it reports exactly {"m"}, and every run of it - both solvers, every
   arithmetic - is the same for all pairs of environments. *)
Theorem C09_inputs_minimal_refuted :
  exists comps inf ops m,
    build_ok 0 5 1 comps inf ops = Some m /\ (forall k, In k (input_parameters m) <-> k = "m"%string)
    /\ forall (O : NumOps) (T : NumTheory O) (s : solver) (p q : env O), run_model O m s p = run_model O m s q.
Proof. exact inputs_minimal_refuted. Qed.
Print Assumptions C09_inputs_minimal_refuted.

(* (what makes it so, for every model: a run depends on the infectiousness adjustments only through the vector they
   evaluate to) *)
Theorem C09_infectiousness_enters_as_a_vector :
  forall (O : NumOps) (T : NumTheory O) (m : model) (s : solver) (p q : env O),
    agree O (rate_exprs_but_infectiousness m) p q ->
    compartment_infectiousness O m p = compartment_infectiousness O m q ->
    agree O (flat_map params_of (init_exprs m)) p q ->
    agree O (flat_map params_of (map snd (m_cvs m))) p q ->
    agree O (flat_map params_of (request_param_exprs m)) p q ->
    run_model O m s p = run_model O m s q.
Proof. exact run_model_ext_inf. Qed.
Print Assumptions C09_infectiousness_enters_as_a_vector.

Local Open Scope string_scope.
Example C09_nonvacuous :
  let e := EAdd (EMul (EParam "beta") (EConst (1#2))) (EParam "gamma") in
  this (eval QcOps (env_of_ex [("beta", 3%Q); ("gamma", (1#4)%Q)]) 0%Qc [] (subst "beta" 3 e)) = (7#4)%Q
  /\ freeze_expr ["gamma"] (fun k => if String.eqb k "beta" then Some 3%Q else None) e
     = EAdd (EMul (EConst 3) (EConst (1#2))) (EParam "gamma").
Proof. split; vm_compute; reflexivity. Qed.
