(* C02 - People are neither created nor lost except through entry and exit flows.
   Statements only; proofs are in Proofs/ConservationProofs.v and Proofs/AdaptiveProofs.v. *)
From Coq Require Import QArith Qcanon List String Bool.
Import ListNotations.
From S2 Require Import Base.Num Base.Arr Model.Expr Model.Struct Model.Rates Model.Solvers Model.Program
     Model.InitPop Model.Adaptive Spec.RatesSpec Proofs.NumQc Proofs.RatesProofs Proofs.ConservationProofs Proofs.AdaptiveProofs
     Proofs.ReplacementAdd Props.Examples.

(* the rate of change of the total population = total entry rate - total exit rate; every flow
   with both ends contributes +r to its destination and -r to its source and cancels *)
Theorem C02_total_rate :
  forall (O : NumOps) (T : NumTheory O) (m : model) (b : backend) (p : env O) (t : F O) (x0 : list (F O)),
    prepare_structural m = Ok b -> m_comps m <> [] ->
    fsum O (get_comp_rates O m b p t x0)
    = fsub O (rate_sum O entry_flow m (get_flow_rates O m b p t x0))
             (rate_sum O exit_flow m (get_flow_rates O m b p t x0)).
Proof. exact total_rate_entry_minus_exit. Qed.
Print Assumptions C02_total_rate.

Theorem C02_closed_rate_zero :
  forall (O : NumOps) (T : NumTheory O) (m : model) (b : backend) (p : env O) (t : F O) (x0 : list (F O)),
    prepare_structural m = Ok b -> m_comps m <> [] -> closed_model m ->
    fsum O (get_comp_rates O m b p t x0) = f0 O.
Proof. exact closed_total_rate_zero. Qed.
Print Assumptions C02_closed_rate_zero.

(* a model without entry or exit flows keeps its total along the whole Euler and RK4 trajectory:
   exactly, for every step size, start time and number of steps *)
Theorem C02_closed_euler :
  forall (O : NumOps) (T : NumTheory O) (m : model) (b : backend) (p : env O) (t0 h : F O) (y0 : list (F O)) (k : nat),
    prepare_structural m = Ok b -> m_comps m <> [] -> closed_model m ->
    List.length y0 = List.length (m_comps m) ->
    Forall (fun row => fsum O row = fsum O y0)
           (solve_fixed O (euler_step O) (fun t y => get_comp_rates O m b p t y) t0 h y0 k).
Proof.
  intros O T m b p t0 h y0 k Hb Hne Hc Hy.
  apply (euler_conserves O T (List.length (m_comps m))); [| |exact Hy].
  - intros; apply get_comp_rates_length.
  - intros; apply closed_total_rate_zero; assumption.
Qed.
Print Assumptions C02_closed_euler.

Theorem C02_closed_rk4 :
  forall (O : NumOps) (T : NumTheory O) (m : model) (b : backend) (p : env O) (t0 h : F O) (y0 : list (F O)) (k : nat),
    prepare_structural m = Ok b -> m_comps m <> [] -> closed_model m ->
    List.length y0 = List.length (m_comps m) ->
    Forall (fun row => fsum O row = fsum O y0)
           (solve_fixed O (rk4_step O) (fun t y => get_comp_rates O m b p t y) t0 h y0 k).
Proof.
  intros O T m b p t0 h y0 k Hb Hne Hc Hy.
  apply (rk4_conserves O T (List.length (m_comps m))); [| |exact Hy].
  - intros; apply get_comp_rates_length.
  - intros; apply closed_total_rate_zero; assumption.
Qed.
Print Assumptions C02_closed_rk4.

(* the adaptive solver (Dormand-Prince steps over the coefficient tables translated from ode.py, dense
   output, accept / reject loop): every row of the solution of a closed model has the initial total -
   for every step-size controller (error_ratio, next_dt), every initial step dt0 and every step bound;
   the first requested time must lie ahead and be reached (otherwise the code, too, returns the
   interpolation of its dummy initial coefficients) *)
Theorem C02_closed_adaptive :
  forall (O : NumOps) (T : NumTheory O) (m : model) (b : backend) (p : env O)
         (error_ratio : list (F O) -> list (F O) -> list (F O) -> F O) (next_dt : F O -> F O -> F O)
         (mxstep : nat) (y0 : list (F O)) (t0 dt0 tg : F O) (targets : list (F O)),
    prepare_structural m = Ok b -> m_comps m <> [] -> closed_model m ->
    List.length y0 = List.length (m_comps m) -> fltb O t0 tg = true ->
    let f := fun t y => get_comp_rates O m b p t y in
    let n := List.length (m_comps m) in
    reached O (advance O error_ratio next_dt mxstep n f
                 {| st_y := y0; st_f := f t0 y0; st_t := t0; st_dt := dt0; st_last_t := t0; st_coeff := (y0, y0, y0, y0, y0) |} tg) tg ->
    Forall (fun row => List.length row = n /\ fsum O row = fsum O y0)
           (odeint O error_ratio next_dt mxstep n f y0 t0 dt0 (tg :: targets)).
Proof.
  intros O T m b p er nd mx y0 t0 dt0 tg targets Hb Hne Hc Hy Hlt f n Hreach.
  apply (odeint_conserves O T n f); try assumption.
  - intros; apply get_comp_rates_length.
  - intros; apply closed_total_rate_zero; assumption.
Qed.
Print Assumptions C02_closed_adaptive.

(* replacement births replace deaths exactly when their weights sum to one *)
Theorem C02_replacement :
  forall (O : NumOps) (T : NumTheory O) (m : model) (b : backend) (p : env O) (t : F O) (x0 : list (F O)),
    prepare_structural m = Ok b -> m_comps m <> [] ->
    (forall f, In f (m_flows m) -> entry_flow f = fkind_eqb (f_kind f) KRepl) ->
    (forall f, In f (m_flows m) -> exit_flow f = fkind_eqb (f_kind f) KDeath) ->
    fsum O (map (weight_spec O p t (vclean O x0)) (filter (fun f => fkind_eqb (f_kind f) KRepl) (m_flows m))) = f1 O ->
    fsum O (get_comp_rates O m b p t x0) = f0 O.
Proof. exact replacement_total_zero. Qed.
Print Assumptions C02_replacement.

(* ... and that is how a replacement-birth flow enters the model: however many compartments its destination matches at
   the time of the call (none stratified yet, or an already stratified model), the flows the call adds are
   replacement-birth flows whose weights add up to one.  (Before the repair f211346 each of n matching destinations
   received weight 1, the hypothesis of C02_replacement failed and the population grew: DESIGN.md section 7.) *)
Theorem C02_replacement_added :
  forall (O : NumOps) (T : NumTheory O) m name param src dst sf df expected split m' (p : env O) t x,
    add_flow m (FlowSpec KRepl name param src dst sf df expected split) = Ok m' ->
    exists new,
      m_flows m' = m_flows m ++ new
      /\ List.length new = List.length (filter (fun c => is_match c dst df) (m_comps m))
      /\ (forall f, In f new -> f_kind f = KRepl)
      /\ (new <> [] -> fsum O (map (weight_spec O p t x) new) = f1 O).
Proof. intros O T. exact (replacement_added_weights O T). Qed.
Print Assumptions C02_replacement_added.

(* non-vacuity: the example model (deaths + replacement births split 5/8 + 3/8 ... plus an
   importation flow) meets the hypotheses of C02_total_rate, and its total rate is the
   importation rate: entry (births + imports) minus exit (deaths) *)
Example C02_nonvacuous :
  prepare_structural ex_m = Ok ex_b /\ m_comps ex_m <> []
  /\ fsum QcOps (get_comp_rates QcOps ex_m ex_b ex_env (Q2Qc 1) ex_state) = Q2Qc 2.
Proof.
  split; [exact ex_backend_ok|]. split; [vm_compute; discriminate|]. apply Qc_is_canon. vm_compute. reflexivity.
Qed.

(* non-vacuity of the closed-model theorems: a closed S -> I -> R chain, solved adaptively with a
   controller that accepts every step and doubles the step size; the first requested time is reached
   and every row has the initial total 1000 *)
Local Open Scope string_scope.
Definition closed_ops : list op :=
  [ OpPop [("S", EConst 900); ("I", EConst 100)];
    OpFlow (FlowSpec KTrans "inf" (EConst 2) "S" "I" [] [] None false);
    OpFlow (FlowSpec KTrans "rec" (EConst (1#2)) "I" "R" [] [] None false) ].
Definition closed_m : model :=
  match build_ok 0 1 (1#2) ["S"; "I"; "R"] ["I"] closed_ops with Some m => m | None => empty_model end.
Definition closed_b : backend := match prepare_structural closed_m with Ok b => b | Err _ => empty_backend end.
Definition closed_run : list (list Qc) :=
  odeint QcOps (fun _ _ _ => 0%Qc) (fun dt _ => (dt + dt)%Qc) 20 3
         (fun t y => get_comp_rates QcOps closed_m closed_b ex_env t y)
         (initial_population QcOps closed_m ex_env) 0%Qc (Q2Qc (1#4)) [Q2Qc (1#4); Q2Qc (1#2)].

Example C02_closed_nonvacuous :
  prepare_structural closed_m = Ok closed_b /\ m_comps closed_m <> []
  /\ (forall f, In f (m_flows closed_m) -> has_src f = true /\ has_dst f = true)
  /\ map (fun row => this (fsum QcOps row)) closed_run = [1000; 1000; 1000]%Q
  /\ List.length closed_run = 3%nat.
Proof.
  split; [vm_compute; reflexivity|]. split; [vm_compute; discriminate|]. split.
  - intros f Hf. vm_compute in Hf. repeat (destruct Hf as [<-|Hf]; [split; reflexivity|]). destruct Hf.
  - split; vm_compute; reflexivity.
Qed.
