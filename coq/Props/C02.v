(* C02 - People are neither created nor lost except through entry and exit flows.
   Statements only; proofs are in Proofs/ConservationProofs.v. *)
From Coq Require Import QArith Qcanon List String Bool.
Import ListNotations.
From S2 Require Import Base.Num Base.Arr Model.Expr Model.Struct Model.Rates Model.Solvers Model.Program
     Spec.RatesSpec Proofs.NumQc Proofs.RatesProofs Proofs.ConservationProofs Props.Examples.

(* the rate of change of the total population = total entry rate - total exit rate; every flow
   with both ends contributes +r to its destination and -r to its source and cancels *)
Theorem C02_total_rate :
  forall (O : NumOps) (T : NumTheory O) (m : model) (b : backend) (p : env O) (t : F O) (x0 : list (F O)),
    prepare_structural m = Ok b -> m_comps m <> [] ->
    fsum O (get_comp_rates O m b p t x0)
    = fsub O (rate_sum O entry_flow m (get_flow_rates O m b p t x0))
             (rate_sum O exit_flow m (get_flow_rates O m b p t x0)).
Proof. exact total_rate_entry_minus_exit. Qed.
Print Assumptions C02_total_rate.

Theorem C02_closed_rate_zero :
  forall (O : NumOps) (T : NumTheory O) (m : model) (b : backend) (p : env O) (t : F O) (x0 : list (F O)),
    prepare_structural m = Ok b -> m_comps m <> [] -> closed_model m ->
    fsum O (get_comp_rates O m b p t x0) = f0 O.
Proof. exact closed_total_rate_zero. Qed.
Print Assumptions C02_closed_rate_zero.

(* a model without entry or exit flows keeps its total along the whole Euler and RK4 trajectory:
   exactly, for every step size, start time and number of steps *)
Theorem C02_closed_euler :
  forall (O : NumOps) (T : NumTheory O) (m : model) (b : backend) (p : env O) (t0 h : F O) (y0 : list (F O)) (k : nat),
    prepare_structural m = Ok b -> m_comps m <> [] -> closed_model m ->
    List.length y0 = List.length (m_comps m) ->
    Forall (fun row => fsum O row = fsum O y0)
           (solve_fixed O (euler_step O) (fun t y => get_comp_rates O m b p t y) t0 h y0 k).
Proof.
  intros O T m b p t0 h y0 k Hb Hne Hc Hy.
  apply (euler_conserves O T (List.length (m_comps m))); [| |exact Hy].
  - intros; apply get_comp_rates_length.
  - intros; apply closed_total_rate_zero; assumption.
Qed.
Print Assumptions C02_closed_euler.

Theorem C02_closed_rk4 :
  forall (O : NumOps) (T : NumTheory O) (m : model) (b : backend) (p : env O) (t0 h : F O) (y0 : list (F O)) (k : nat),
    prepare_structural m = Ok b -> m_comps m <> [] -> closed_model m ->
    List.length y0 = List.length (m_comps m) ->
    Forall (fun row => fsum O row = fsum O y0)
           (solve_fixed O (rk4_step O) (fun t y => get_comp_rates O m b p t y) t0 h y0 k).
Proof.
  intros O T m b p t0 h y0 k Hb Hne Hc Hy.
  apply (rk4_conserves O T (List.length (m_comps m))); [| |exact Hy].
  - intros; apply get_comp_rates_length.
  - intros; apply closed_total_rate_zero; assumption.
Qed.
Print Assumptions C02_closed_rk4.

(* replacement births replace deaths exactly when their weights sum to one *)
Theorem C02_replacement :
  forall (O : NumOps) (T : NumTheory O) (m : model) (b : backend) (p : env O) (t : F O) (x0 : list (F O)),
    prepare_structural m = Ok b -> m_comps m <> [] ->
    (forall f, In f (m_flows m) -> entry_flow f = fkind_eqb (f_kind f) KRepl) ->
    (forall f, In f (m_flows m) -> exit_flow f = fkind_eqb (f_kind f) KDeath) ->
    fsum O (map (weight_spec O p t (vclean O x0)) (filter (fun f => fkind_eqb (f_kind f) KRepl) (m_flows m))) = f1 O ->
    fsum O (get_comp_rates O m b p t x0) = f0 O.
Proof. exact replacement_total_zero. Qed.
Print Assumptions C02_replacement.

(* non-vacuity: the example model (deaths + replacement births split 5/8 + 3/8 ... plus an
   importation flow) meets the hypotheses of C02_total_rate, and its total rate is the
   importation rate: entry (births + imports) minus exit (deaths) *)
Example C02_nonvacuous :
  prepare_structural ex_m = Ok ex_b /\ m_comps ex_m <> []
  /\ fsum QcOps (get_comp_rates QcOps ex_m ex_b ex_env (Q2Qc 1) ex_state) = Q2Qc 2.
Proof.
  split; [exact ex_backend_ok|]. split; [vm_compute; discriminate|]. apply Qc_is_canon. vm_compute. reflexivity.
Qed.
