(* Extraction of the executable model at Qc for the correspondence harness.
   Directives used: ExtrOcamlBasic, ExtrOcamlString and nothing else. *)
From Coq Require Import QArith Qcanon List String.
From Coq Require Extraction ExtrOcamlBasic ExtrOcamlString.
From S2 Require Import Base.Num Base.Arr Model.Expr Model.Struct Model.Rates Model.InitPop
     Model.Solvers Model.Derived Model.Run Model.Program.

Definition q_one_step := one_step QcOps.
Definition q_run_model := run_model QcOps.
Definition q_initial_population := initial_population QcOps.
Definition q_env_of := env_of QcOps.
Definition q_eval := eval QcOps.
Definition q_this (x : Qc) : Q := this x.

Extraction "summer_model.ml"
  build build_ok q_one_step q_run_model q_initial_population q_env_of q_eval q_this Q2Qc
  query_compartments query_flows serialize num_times.
