(* Extraction of the executable model at Qc for the correspondence harness.
   Directives used: ExtrOcamlBasic, ExtrOcamlString and nothing else. *)
From Coq Require Import QArith Qcanon List String.
From Coq Require Extraction ExtrOcamlBasic ExtrOcamlString.
From S2 Require Import Base.Num Base.Arr Model.Expr Model.Struct Model.Rates Model.InitPop
     Model.Solvers Model.Derived Model.Run Model.Program Model.Api Model.Trace Model.Adaptive Gen.TraceGen.

Definition q_this (x : Qc) : Q := this x.

Extraction "summer_model.ml"
  build build_ok one_step run_model initial_population env_of eval QcOps q_this Q2Qc
  query_compartments query_flows serialize num_times
  steps init_api
  rk_step get_comp_rates prepare_structural
  ev k_binary_search_sum_ge k_piecewise_constant k_linear_curve_at_x k_interpolate_linear k_clean_compartments.
