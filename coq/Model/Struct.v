(* Structural model of the build API of summer2 (model.py, flows.py, stratification.py,
   compartment.py, adjust.py, inspect.py, tracker.py): compartments, flows, stratifications,
   the validations the API performs, in the order it performs them.  No numbers here except
   rational literals inside expressions.  No proofs in this file. *)
From Coq Require Import QArith List String Bool Arith.
Import ListNotations.
From S2 Require Import Base.Num Base.Arr Model.Expr.
Local Open Scope nat_scope.

(* ------------------------------------------------------------------------------ results *)
Inductive result (A : Type) : Type := Ok (a : A) | Err (why : string).
Arguments Ok {A} a.
Arguments Err {A} why.
Definition bind {A B} (r : result A) (f : A -> result B) : result B :=
  match r with Ok a => f a | Err w => Err w end.
Notation "'do' x <- r ; k" := (bind r (fun x => k)) (at level 200, x ident, r at level 100, k at level 200).
Notation "'check' r ; k" := (bind r (fun _ => k)) (at level 200, r at level 100, k at level 200).
Definition guard (b : bool) (why : string) : result unit := if b then Ok tt else Err why.

(* --------------------------------------------------------------------------- compartments *)
Definition strata := list (string * string).     (* insertion-ordered dict *)

Record comp := { c_name : string; c_strata : strata }.

Definition pair_eqb (a b : string * string) : bool :=
  String.eqb (fst a) (fst b) && String.eqb (snd a) (snd b).

Fixpoint strata_eqb (a b : strata) : bool :=
  match a, b with
  | [], [] => true
  | x :: a', y :: b' => pair_eqb x y && strata_eqb a' b'
  | _, _ => false
  end.

(* Compartment.__eq__ compares serialised strings; under the name hygiene stated in DESIGN.md
   (no "X" / "_" inside names) this is structural equality of name and ordered strata. *)
Definition comp_eqb (a b : comp) : bool :=
  String.eqb (c_name a) (c_name b) && strata_eqb (c_strata a) (c_strata b).

Fixpoint strata_get (s : strata) (k : string) : option string :=
  match s with
  | [] => None
  | (k', v) :: t => if String.eqb k k' then Some v else strata_get t k
  end.

(* {**strata, k: v} *)
Fixpoint strata_set (s : strata) (k v : string) : strata :=
  match s with
  | [] => [(k, v)]
  | (k', v') :: t => if String.eqb k k' then (k', v) :: t else (k', v') :: strata_set t k v
  end.

(* frozenset(filter.items()).issubset(frozenset(strata.items())) *)
Definition has_pair (s : strata) (kv : string * string) : bool := existsb (pair_eqb kv) s.
Definition has_strata (c : comp) (filt : strata) : bool := forallb (has_pair (c_strata c)) filt.
Definition has_stratum (c : comp) (k v : string) : bool :=
  match strata_get (c_strata c) k with Some v' => String.eqb v v' | None => false end.
Definition is_match (c : comp) (name : string) (filt : strata) : bool :=
  String.eqb name (c_name c) && has_strata c filt.
Definition mem_str (x : string) (l : list string) : bool := existsb (String.eqb x) l.
Definition has_name_in_list (c : comp) (names : list string) : bool := mem_str (c_name c) names.
Definition stratify_comp (c : comp) (sname stratum : string) : comp :=
  {| c_name := c_name c; c_strata := strata_set (c_strata c) sname stratum |}.

(* inspect.query_compartments with string-valued strata queries: per (k, v): the compartment
   must carry stratification k and its stratum must equal v *)
Definition query_match (c : comp) (filt : strata) : bool :=
  forallb (fun kv => match strata_get (c_strata c) (fst kv) with
                     | Some v => String.eqb v (snd kv)
                     | None => false end) filt.

(* ---------------------------------------------------------------------------------- flows *)
Inductive fkind := KCrude | KRepl | KImport | KDeath | KTrans | KAbs | KInfFreq | KInfDens.
Definition fkind_eqb (a b : fkind) : bool :=
  match a, b with
  | KCrude, KCrude | KRepl, KRepl | KImport, KImport | KDeath, KDeath | KTrans, KTrans
  | KAbs, KAbs | KInfFreq, KInfFreq | KInfDens, KInfDens => true
  | _, _ => false
  end.
Definition is_entry (k : fkind) := match k with KCrude | KRepl | KImport => true | _ => false end.
Definition is_exit (k : fkind) := match k with KDeath => true | _ => false end.
Definition is_birth (k : fkind) := match k with KCrude | KRepl => true | _ => false end.
Definition is_infection (k : fkind) := match k with KInfFreq | KInfDens => true | _ => false end.

Inductive adj := AMul (e : expr) | AOvr (e : expr).

Record flow := {
  f_name : string; f_kind : fkind;
  f_src : option comp; f_dst : option comp;
  f_param : expr; f_adjs : list adj }.

Definition opt_has_strata (oc : option comp) (filt : strata) : bool :=
  match filt, oc with
  | [], _ => true
  | _, None => true
  | _, Some c => has_strata c filt
  end.

(* BaseFlow.is_match *)
Definition flow_is_match (f : flow) (name : string) (src_f dst_f : strata) : bool :=
  String.eqb (f_name f) name && opt_has_strata (f_src f) src_f && opt_has_strata (f_dst f) dst_f.

(* -------------------------------------------------------------------------- stratification *)
Inductive skind := SPlain | SAge | SStrain.
Definition is_age (k : skind) := match k with SAge => true | _ => false end.
Definition is_strain (k : skind) := match k with SStrain => true | _ => false end.

Definition fadj_entry := (list (string * option adj) * strata * strata)%type.

Record strat := {
  s_name : string; s_kind : skind;
  s_strata : list string; s_comps : list string;
  s_split : list (string * expr);
  s_fadj : list (string * fadj_entry);                       (* declaration order *)
  s_iadj : list (string * list (string * option adj));
  s_mix : option (list (list expr)) }.

Fixpoint assoc {A} (k : string) (l : list (string * A)) : option A :=
  match l with
  | [] => None
  | (k', v) :: t => if String.eqb k k' then Some v else assoc k t
  end.

(* Stratification.get_flow_adjustment: the last declared entry for this flow name whose
   filters apply.  [validate] mirrors the assertions (a source filter on a flow without a
   source, a destination filter on a flow without a destination). *)
Definition fadj_applies (f : flow) (e : fadj_entry) : bool :=
  let '(_, sf, df) := e in
  opt_has_strata (f_src f) sf && opt_has_strata (f_dst f) df.

Definition fadj_invalid (f : flow) (e : fadj_entry) : bool :=
  let '(_, sf, df) := e in
  (negb (match sf with [] => true | _ => false end) && match f_src f with None => true | _ => false end)
  || (negb (match df with [] => true | _ => false end) && match f_dst f with None => true | _ => false end).

Definition declared_for (s : strat) (name : string) : list fadj_entry :=
  map snd (filter (fun ne => String.eqb (fst ne) name) (s_fadj s)).

Definition get_flow_adjustment (s : strat) (f : flow) : result (option (list (string * option adj))) :=
  let ds := declared_for s (f_name f) in
  if existsb (fadj_invalid f) ds then Err "flow adjustment filter on a missing end"
  else Ok (last_some (map (fun e => if fadj_applies f e then Some (fst (fst e)) else None) ds)).

Definition inv_count (n : nat) : expr := EConst (1 # Pos.of_nat n).

Definition opt_to_list {A} (o : option A) : list A := match o with Some a => [a] | None => [] end.
Definition adj_for (fa : list (string * option adj)) (stratum : string) : list adj :=
  match assoc stratum fa with Some (Some a) => [a] | _ => [] end.

Definition opt_strat (oc : option comp) (sname stratum : string) (doit : bool) : option comp :=
  match oc with
  | Some c => if doit then Some (stratify_comp c sname stratum) else Some c
  | None => None
  end.

Definition opt_in_list (oc : option comp) (names : list string) : bool :=
  match oc with Some c => has_name_in_list c names | None => false end.

(* flow.stratify(strat) for every flow class *)
Definition stratify_flow (s : strat) (f : flow) : result (list flow) :=
  let n := List.length (s_strata s) in
  let src_s := opt_in_list (f_src f) (s_comps s) in
  let dst_s := opt_in_list (f_dst f) (s_comps s) in
  let mk (stratum : string) (extra : list adj) : flow :=
    {| f_name := f_name f; f_kind := f_kind f;
       f_src := opt_strat (f_src f) (s_name s) stratum src_s;
       f_dst := opt_strat (f_dst f) (s_name s) stratum dst_s;
       f_param := f_param f; f_adjs := f_adjs f ++ extra |} in
  if is_entry (f_kind f) then
    if negb dst_s then Ok [f] else
    do fa <- get_flow_adjustment s f;
    let birth_age := is_birth (f_kind f) && is_age (s_kind s) in
    match fa with
    | Some _ => if birth_age then Err "Cannot adjust birth flows into age stratifications."
                else Ok (map (fun st => mk st (match fa with Some a => adj_for a st | None => [] end)) (s_strata s))
    | None =>
        if birth_age then
          Ok (map (fun st => mk st []) (filter (fun st => String.eqb st "0") (s_strata s)))
        else Ok (map (fun st => mk st [AMul (inv_count n)]) (s_strata s))
    end
  else if is_exit (f_kind f) then
    if negb src_s then Ok [f] else
    do fa <- get_flow_adjustment s f;
    Ok (map (fun st => mk st (match fa with Some a => adj_for a st | None => [] end)) (s_strata s))
  else
    if negb (src_s || dst_s) then Ok [f] else
    do fa <- get_flow_adjustment s f;
    let conserve := (dst_s && negb src_s) && negb (is_strain (s_kind s))
                    && match fa with None => true | Some _ => false end in
    let base := map (fun st =>
                  mk st (if conserve then [AMul (inv_count n)]
                         else match fa with Some a => adj_for a st | None => [] end)) (s_strata s) in
    match f_kind f with
    | KAbs =>
        (* AbsoluteFlow.stratify: share the absolute weight among the copies, once *)
        if (1 <? List.length base) && negb conserve
        then Ok (map (fun g => {| f_name := f_name g; f_kind := f_kind g; f_src := f_src g;
                                  f_dst := f_dst g; f_param := f_param g;
                                  f_adjs := f_adjs g ++ [AMul (inv_count (List.length base))] |}) base)
        else Ok base
    | _ => Ok base
    end.

(* Stratification._stratify_compartments *)
Definition stratify_comps (s : strat) (cs : list comp) : list comp :=
  flat_map (fun c => if has_name_in_list c (s_comps s)
                     then map (stratify_comp c (s_name s)) (s_strata s)
                     else [c]) cs.

(* ------------------------------------------------------------------- derived-output requests *)
Inductive request :=
| RFlow (flow_name : string) (src_f dst_f : strata) (raw : bool)
| RComp (names : list string) (filt : strata)
| RAgg (sources : list string)
| RCum (source : string) (start : option Q)
| RFunc (fn : nat) (sources : list string) (params : list expr)      (* function library, see Derived.v *)
| RCV (name : string).

Inductive action :=
| AStratify (s : strat)
| ARebalance (sname : string) (filt : strata) (props : list (string * expr)).

(* ---------------------------------------------------------------------------------- model *)
Record model := {
  m_times : (Q * Q * Q);                    (* start, end, timestep *)
  m_comps : list comp;
  m_orig : list string;
  m_infectious : list string;
  m_flows : list flow;
  m_strats : list strat;
  m_mixcats : list strata;
  m_strains : list string;
  m_actions : list action;
  m_initpop : option (list (string * expr));
  m_arraypop : option (list expr);
  m_requests : list (string * (request * bool));     (* name, request, save_results *)
  m_whitelist : list string;
  m_cvs : list (string * expr);                     (* computed values *)
  m_defaults : list (string * Q);
  m_finalized : bool }.

Definition upd_flows (m : model) (fl : list flow) : model :=
  {| m_times := m_times m; m_comps := m_comps m; m_orig := m_orig m; m_infectious := m_infectious m;
     m_flows := fl; m_strats := m_strats m; m_mixcats := m_mixcats m; m_strains := m_strains m;
     m_actions := m_actions m; m_initpop := m_initpop m; m_arraypop := m_arraypop m;
     m_requests := m_requests m; m_whitelist := m_whitelist m; m_cvs := m_cvs m;
     m_defaults := m_defaults m; m_finalized := m_finalized m |}.

Definition q_is_int (q : Q) : bool := Z.eqb (Z.modulo (Qnum q) (Zpos (Qden q))) 0.

(* CompartmentalModel.__init__ *)
Definition new_model (t0 t1 h : Q) (comps infectious : list string) : result model :=
  check guard (negb (Qle_bool t1 t0)) "End time must be greater than start time";
  let nsteps := (1 + (t1 - t0) / h)%Q in
  check guard (Qle_bool 1 nsteps) "Time step must be less than time period";
  check guard (q_is_int nsteps) "Time step must be a factor of time period";
  check guard (forallb (fun n => mem_str n comps) infectious)
               "Infectious compartments must be a subset of compartments";
  Ok {| m_times := (t0, t1, h);
        m_comps := map (fun n => {| c_name := n; c_strata := [] |}) comps;
        m_orig := comps; m_infectious := infectious; m_flows := [];
        m_strats := []; m_mixcats := [[]]; m_strains := ["default"%string];
        m_actions := []; m_initpop := None; m_arraypop := None; m_requests := [];
        m_whitelist := []; m_cvs := []; m_defaults := []; m_finalized := false |}.

Definition not_finalized (m : model) : result unit :=
  guard (negb (m_finalized m)) "Cannot make changes to model that is already finalized".

Definition set_initial_population (m : model) (dist : list (string * expr)) : result model :=
  check not_finalized m;
  check guard (match m_strats m with [] => true | _ => false end)
               "Cannot set initial population after the model has been stratified";
  check guard (forallb (fun kv => mem_str (fst kv) (m_orig m)) dist) "unknown compartment";
  Ok {| m_times := m_times m; m_comps := m_comps m; m_orig := m_orig m; m_infectious := m_infectious m;
        m_flows := m_flows m; m_strats := m_strats m; m_mixcats := m_mixcats m; m_strains := m_strains m;
        m_actions := m_actions m;
        m_initpop := Some (map (fun n => (n, match assoc n dist with Some e => e | None => EConst 0 end)) (m_orig m));
        m_arraypop := m_arraypop m;
        m_requests := m_requests m; m_whitelist := m_whitelist m; m_cvs := m_cvs m;
        m_defaults := m_defaults m; m_finalized := m_finalized m |}.

Definition init_population_with_graphobject (m : model) (arr : list expr) : result model :=
  check not_finalized m;
  Ok {| m_times := m_times m; m_comps := m_comps m; m_orig := m_orig m; m_infectious := m_infectious m;
        m_flows := m_flows m; m_strats := m_strats m; m_mixcats := m_mixcats m; m_strains := m_strains m;
        m_actions := m_actions m; m_initpop := Some []; m_arraypop := Some arr;
        m_requests := m_requests m; m_whitelist := m_whitelist m; m_cvs := m_cvs m;
        m_defaults := m_defaults m; m_finalized := m_finalized m |}.

(* model.query_compartments({"name": n} | strata): by name, then per-key stratum test *)
Definition matching_comps (m : model) (name : string) (filt : strata) : result (list comp) :=
  if existsb (fun c => String.eqb name (c_name c)) (m_comps m)
  then Ok (filter (fun c => String.eqb name (c_name c) && query_match c filt) (m_comps m))
  else Err "KeyError: no compartment with that name".

Definition check_count (expected : option nat) (n : nat) : result unit :=
  match expected with
  | None => Ok tt
  | Some e => guard (Nat.eqb e n) "unexpected number of flows added"
  end.

Definition has_birth_flow (m : model) : bool := existsb (fun f => is_birth (f_kind f)) (m_flows m).

(* _add_entry_flow / _add_exit_flow / _add_transition_flow and their public wrappers *)
Definition add_entry_flow (m : model) (k : fkind) (name : string) (param : expr) (dst : string)
           (dst_f : strata) (expected : option nat) (adjs : list adj) : result model :=
  check not_finalized m;
  let dests := filter (fun c => is_match c dst dst_f) (m_comps m) in
  let new := map (fun c => {| f_name := name; f_kind := k; f_src := None; f_dst := Some c;
                              f_param := param; f_adjs := adjs |}) dests in
  check check_count expected (List.length new);
  Ok (upd_flows m (m_flows m ++ new)).

Definition add_exit_flow (m : model) (name : string) (param : expr) (src : string)
           (src_f : strata) (expected : option nat) : result model :=
  check not_finalized m;
  let srcs := filter (fun c => is_match c src src_f) (m_comps m) in
  let new := map (fun c => {| f_name := name; f_kind := KDeath; f_src := Some c; f_dst := None;
                              f_param := param; f_adjs := [] |}) srcs in
  check check_count expected (List.length new);
  Ok (upd_flows m (m_flows m ++ new)).

Definition add_transition_like (m : model) (k : fkind) (name : string) (param : expr)
           (src dst : string) (src_f dst_f : strata) (expected : option nat) : result model :=
  check not_finalized m;
  do dests <- matching_comps m dst dst_f;
  do srcs <- matching_comps m src src_f;
  check guard (Nat.eqb (List.length dests) (List.length srcs))
               "Expected equal number of source and dest compartments";
  let new := zip_with (fun s d => {| f_name := name; f_kind := k; f_src := Some s; f_dst := Some d;
                                     f_param := param; f_adjs := [] |}) srcs dests in
  check check_count expected (List.length new);
  Ok (upd_flows m (m_flows m ++ new)).

Definition add_universal_death (m : model) (name : string) (param : expr) : result model :=
  check guard (negb (existsb (fun f => String.eqb (f_name f) name) (m_flows m)))
               "There is already a universal death flow with this name";
  fold_left (fun r cn => do m' <- r; add_exit_flow m' name param cn [] None) (m_orig m) (Ok m).

Inductive flow_spec :=
  FlowSpec (k : fkind) (name : string) (param : expr) (src dst : string) (src_f dst_f : strata)
           (expected : option nat) (split_imports : bool).

Definition add_flow (m : model) (fs : flow_spec) : result model :=
  let 'FlowSpec k name param src dst src_f dst_f expected split := fs in
  match k with
  | KCrude =>
      check guard (negb (has_birth_flow m)) "There is already a birth flow in this model";
      add_entry_flow m k name param dst dst_f expected []
  | KRepl =>
      check guard (negb (has_birth_flow m)) "There is already a birth flow in this model";
      (* the births replace the deaths once: shared equally when the destination matches several compartments *)
      let ndest := List.length (filter (fun c => is_match c dst dst_f) (m_comps m)) in
      add_entry_flow m k name (EConst 1) dst dst_f expected (if 1 <? ndest then [AMul (inv_count ndest)] else [])
  | KImport =>
      let ndest := List.length (filter (fun c => is_match c dst dst_f) (m_comps m)) in
      if split then
        check guard (negb (Nat.eqb ndest 0)) "ZeroDivisionError: split_imports with no destination";
        add_entry_flow m k name param dst dst_f expected [AMul (inv_count ndest)]
      else add_entry_flow m k name param dst dst_f expected []
  | KDeath => add_exit_flow m name param src src_f expected
  | KTrans | KAbs | KInfFreq | KInfDens => add_transition_like m k name param src dst src_f dst_f expected
  end.

(* ------------------------------------------------------------------------------ stratify_with *)
Definition strat_names (m : model) : list string := map s_name (m_strats m).

Definition strata_exist (m : model) (filt : strata) : bool :=
  forallb (fun kv => existsb (fun s => String.eqb (fst kv) (s_name s) && mem_str (snd kv) (s_strata s))
                             (m_strats m)) filt.

Fixpoint list_str_eqb (a b : list string) : bool :=
  match a, b with
  | [], [] => true
  | x :: a', y :: b' => String.eqb x y && list_str_eqb a' b'
  | _, _ => false
  end.

Fixpoint collect {A B} (f : A -> result (list B)) (l : list A) : result (list B) :=
  match l with
  | [] => Ok []
  | a :: t => do x <- f a; do r <- collect f t; Ok (x ++ r)
  end.

Fixpoint str_of_pos_fuel (fuel : nat) (p : positive) (acc : string) : string :=
  match fuel with
  | O => acc
  | S fuel' =>
      let d := Z.to_nat (Z.modulo (Zpos p) 10) in
      let c := Ascii.ascii_of_nat (48 + d) in
      let acc' := String c acc in
      match Z.div (Zpos p) 10 with
      | Zpos p' => str_of_pos_fuel fuel' p' acc'
      | _ => acc'
      end
  end.
Definition str_of_nat (n : nat) : string :=
  match n with O => "0"%string | _ => str_of_pos_fuel (S n) (Pos.of_nat n) EmptyString end.

(* int(stratum) for age strata: decimal digits only *)
Fixpoint nat_of_str_acc (s : string) (acc : nat) : option nat :=
  match s with
  | EmptyString => Some acc
  | String c t => let n := Ascii.nat_of_ascii c in
                  if (48 <=? n) && (n <=? 57) then nat_of_str_acc t (10 * acc + (n - 48)) else None
  end.
Definition nat_of_str (s : string) : option nat :=
  match s with EmptyString => None | _ => nat_of_str_acc s 0 end.

Fixpoint serialize_strata (s : strata) : string :=
  match s with
  | [] => EmptyString
  | (k, v) :: t => String.append "X" (String.append k (String.append "_" (String.append v (serialize_strata t))))
  end.
Definition serialize (c : comp) : string := String.append (c_name c) (serialize_strata (c_strata c)).

Fixpoint pairs_consecutive {A} (l : list A) : list (A * A) :=
  match l with
  | a :: ((b :: _) as t) => (a, b) :: pairs_consecutive t
  | _ => []
  end.

Fixpoint insert_sorted (x : nat) (l : list nat) : list nat :=
  match l with
  | [] => [x]
  | h :: t => if x <=? h then x :: l else h :: insert_sorted x t
  end.
Definition sort_nat (l : list nat) : list nat := fold_right insert_sorted [] l.

(* Validation performed by the Stratification object itself when it is configured
   (constructor, set_population_split, set_flow_adjustments, add_infectiousness_adjustments,
   set_mixing_matrix); the harness configures the object first, then calls stratify_with. *)
Definition set_eq_str (a b : list string) : bool :=
  forallb (fun x => mem_str x b) a && forallb (fun x => mem_str x a) b.

Definition literal_q (e : expr) : option Q := match e with EConst q => Some q | _ => None end.

Definition all_literal (l : list (string * expr)) : option (list Q) :=
  fold_right (fun kv acc => match literal_q (snd kv), acc with
                            | Some q, Some l => Some (q :: l) | _, _ => None end) (Some []) l.

Definition qsum (l : list Q) : Q := fold_right Qplus 0%Q l.
Definition qabs_lt (q bound : Q) : bool :=
  negb (Qle_bool bound q) && negb (Qle_bool bound (- q)).

Fixpoint nodup_str (l : list string) : bool :=
  match l with [] => true | h :: t => negb (mem_str h t) && nodup_str t end.

Definition validate_strat_object (s : strat) : result unit :=
  check (match s_kind s with
           | SAge =>
               match fold_right (fun st acc => match nat_of_str st, acc with
                                               | Some n, Some l => Some (n :: l) | _, _ => None end)
                                (Some []) (s_strata s) with
               | None => Err "Strata must be in an int-compatible format"
               | Some ns => guard (match sort_nat ns with 0 :: _ => true | _ => false end)
                                  "First age strata must be 0"
               end
           | _ => Ok tt end);
  check (match (match s_split s with [] => None | _ => all_literal (s_split s) end) with
           | Some qs =>
               check guard (set_eq_str (map fst (s_split s)) (s_strata s))
                            "All strata must be specified when setting population split";
               check guard (forallb (fun q => Qle_bool 0 q) qs) "All proportions must be >= 0";
               guard (qabs_lt (1 - qsum qs)%Q (1 # 100)) "All proportions sum to 1"
           | None => Ok tt end);
  check guard (forallb (fun ne => set_eq_str (map fst (fst (fst (snd ne)))) (s_strata s)) (s_fadj s))
               "You must specify all strata when adding flow adjustments.";
  check guard (forallb (fun ce => set_eq_str (map fst (snd ce)) (s_strata s)) (s_iadj s))
               "You must specify all strata when adding infectiousness adjustments.";
  check guard (nodup_str (map fst (s_iadj s))) "An infectiousness adjustment already exists";
  guard (negb (is_strain (s_kind s) && match s_mix s with Some _ => true | None => false end))
        "Strain stratifications cannot have a mixing matrix.".

(* AgeStratification sorts its strata numerically *)
Definition normalise_strat (s : strat) : strat :=
  match s_kind s with
  | SAge =>
      match fold_right (fun st acc => match nat_of_str st, acc with
                                      | Some n, Some l => Some (n :: l) | _, _ => None end)
                       (Some []) (s_strata s) with
      | Some ns => {| s_name := s_name s; s_kind := s_kind s; s_strata := map str_of_nat (sort_nat ns);
                      s_comps := s_comps s; s_split := s_split s; s_fadj := s_fadj s;
                      s_iadj := s_iadj s; s_mix := s_mix s |}
      | None => s
      end
  | _ => s
  end.

Definition ageing_specs (s : strat) (prev : list comp) : list flow_spec :=
  let ages := sort_nat (flat_map (fun st => opt_to_list (nat_of_str st)) (s_strata s)) in
  flat_map (fun ab : nat * nat =>
    let (a, b) := ab in
    map (fun c =>
      let src := stratify_comp c (s_name s) (str_of_nat a) in
      let dst := stratify_comp c (s_name s) (str_of_nat b) in
      FlowSpec KTrans
        (String.append "ageing_" (String.append (serialize src) (String.append "_to_" (serialize dst))))
        (EConst (1 # Pos.of_nat (b - a))) (c_name src) (c_name dst) (c_strata src) (c_strata dst)
        (Some 1) false) prev) (pairs_consecutive ages).

Definition stratify_with (m : model) (s0 : strat) : result model :=
  check validate_strat_object s0;
  let s := normalise_strat s0 in
  check guard (negb (mem_str (s_name s) (strat_names m))) "Stratification already exists";
  check not_finalized m;
  check guard (forallb (fun ne => existsb (fun f => String.eqb (f_name f) (fst ne)) (m_flows m)) (s_fadj s))
               "Flow adjustment refers to a flow that is not present in the model.";
  check guard (forallb (fun ne => let '(_, sf, df) := snd ne in strata_exist m sf && strata_exist m df) (s_fadj s))
               "Invalid stratification / stratum in adjustment filter";
  check guard (forallb (fun ce => mem_str (fst ce) (m_orig m)) (s_iadj s))
               "Infectiousness adjustments must refer to a compartment present in the model.";
  do mixcats <- (match s_mix s with
                 | Some _ =>
                     check guard (negb (is_strain (s_kind s))) "Strains cannot have a mixing matrix.";
                     check guard (set_eq_str (s_comps s) (m_orig m))
                                  "Mixing matrices only allowed for full stratification.";
                     Ok (flat_map (fun mc => map (fun st => mc ++ [(s_name s, st)]) (s_strata s)) (m_mixcats m))
                 | None => Ok (m_mixcats m) end);
  do strains <- (if is_strain (s_kind s) then
                   check guard (negb (existsb (fun s' => is_strain (s_kind s')) (m_strats m)))
                                "An infection strain stratification has already been applied";
                   Ok (s_strata s)
                 else Ok (m_strains m));
  check guard (forallb (fun c => mem_str c (m_orig m)) (s_comps s))
               "Trying to stratify non-existent compartment";
  let prev := m_comps m in
  let comps' := stratify_comps s prev in
  do flows' <- collect (stratify_flow s) (m_flows m);
  let m1 := {| m_times := m_times m; m_comps := comps'; m_orig := m_orig m; m_infectious := m_infectious m;
               m_flows := flows'; m_strats := m_strats m; m_mixcats := mixcats; m_strains := strains;
               m_actions := m_actions m; m_initpop := m_initpop m; m_arraypop := m_arraypop m;
               m_requests := m_requests m; m_whitelist := m_whitelist m; m_cvs := m_cvs m;
               m_defaults := m_defaults m; m_finalized := m_finalized m |} in
  do m2 <- (if is_age (s_kind s) then
              check guard (negb (existsb (fun s' => is_age (s_kind s')) (m_strats m)))
                           "Age stratification can only be applied once";
              check guard (set_eq_str (s_comps s) (m_orig m))
                           "Age stratification only allowed for full stratification.";
              fold_left (fun r fs => do m' <- r; add_flow m' fs) (ageing_specs s prev) (Ok m1)
            else Ok m1);
  Ok {| m_times := m_times m2; m_comps := m_comps m2; m_orig := m_orig m2; m_infectious := m_infectious m2;
        m_flows := m_flows m2; m_strats := m_strats m2 ++ [s]; m_mixcats := m_mixcats m2;
        m_strains := m_strains m2; m_actions := m_actions m2 ++ [AStratify s];
        m_initpop := m_initpop m2; m_arraypop := m_arraypop m2;
        m_requests := m_requests m2; m_whitelist := m_whitelist m2; m_cvs := m_cvs m2;
        m_defaults := m_defaults m2; m_finalized := m_finalized m2 |}.

(* adjust_population_split *)
Definition adjust_population_split (m : model) (sname : string) (filt : strata)
           (props : list (string * expr)) : result model :=
  check not_finalized m;
  match find (fun s => String.eqb (s_name s) sname) (m_strats m) with
  | None => Err "No stratification found in model"
  | Some s =>
      check guard (set_eq_str (map fst props) (s_strata s)) "All strata must be specified in proportions";
      Ok {| m_times := m_times m; m_comps := m_comps m; m_orig := m_orig m; m_infectious := m_infectious m;
            m_flows := m_flows m; m_strats := m_strats m; m_mixcats := m_mixcats m; m_strains := m_strains m;
            m_actions := m_actions m ++ [ARebalance sname filt props];
            m_initpop := m_initpop m; m_arraypop := m_arraypop m;
            m_requests := m_requests m; m_whitelist := m_whitelist m; m_cvs := m_cvs m;
            m_defaults := m_defaults m; m_finalized := m_finalized m |}
  end.

(* ------------------------------------------------------------------------ output requests *)
Definition has_request (m : model) (name : string) : bool :=
  existsb (fun r => String.eqb (fst r) name) (m_requests m).

Definition add_request (m : model) (name : string) (r : request) (save : bool) : model :=
  {| m_times := m_times m; m_comps := m_comps m; m_orig := m_orig m; m_infectious := m_infectious m;
     m_flows := m_flows m; m_strats := m_strats m; m_mixcats := m_mixcats m; m_strains := m_strains m;
     m_actions := m_actions m; m_initpop := m_initpop m; m_arraypop := m_arraypop m;
     m_requests := m_requests m ++ [(name, (r, save))]; m_whitelist := m_whitelist m; m_cvs := m_cvs m;
     m_defaults := m_defaults m; m_finalized := m_finalized m |}.

Definition request_output (m : model) (name : string) (r : request) (save : bool) : result model :=
  check not_finalized m;
  check guard (negb (has_request m name)) "A derived output with this name already exists.";
  check (match r with
           | RFlow fname sf df _ =>
               guard (existsb (fun f => flow_is_match f fname sf df) (m_flows m)) "No flow matches"
           | RComp names filt =>
               guard (existsb (fun c => existsb (fun n => is_match c n filt) names) (m_comps m))
                     "No compartment matches"
           | RAgg srcs => guard (forallb (has_request m) srcs) "Source has not been requested."
           | RCum src _ => guard (has_request m src) "Source has not been requested."
           | RFunc _ srcs _ => guard (forallb (has_request m) srcs) "Source has not been requested."
           | RCV _ => Ok tt
           end);
  Ok (add_request m name r save).

Definition set_whitelist (m : model) (wl : list string) : model :=
  {| m_times := m_times m; m_comps := m_comps m; m_orig := m_orig m; m_infectious := m_infectious m;
     m_flows := m_flows m; m_strats := m_strats m; m_mixcats := m_mixcats m; m_strains := m_strains m;
     m_actions := m_actions m; m_initpop := m_initpop m; m_arraypop := m_arraypop m;
     m_requests := m_requests m; m_whitelist := wl; m_cvs := m_cvs m;
     m_defaults := m_defaults m; m_finalized := m_finalized m |}.

Definition add_computed_value (m : model) (name : string) (e : expr) : result model :=
  check guard (negb (existsb (fun kv => String.eqb (fst kv) name) (m_cvs m)))
               "Computed value function with this name already exists";
  Ok {| m_times := m_times m; m_comps := m_comps m; m_orig := m_orig m; m_infectious := m_infectious m;
        m_flows := m_flows m; m_strats := m_strats m; m_mixcats := m_mixcats m; m_strains := m_strains m;
        m_actions := m_actions m; m_initpop := m_initpop m; m_arraypop := m_arraypop m;
        m_requests := m_requests m; m_whitelist := m_whitelist m; m_cvs := m_cvs m ++ [(name, e)];
        m_defaults := m_defaults m; m_finalized := m_finalized m |}.

Definition finalize (m : model) : result model :=
  check guard (match m_initpop m with Some _ => true | None => false end)
               "Model initial population must be set before finalizing";
  Ok {| m_times := m_times m; m_comps := m_comps m; m_orig := m_orig m; m_infectious := m_infectious m;
        m_flows := m_flows m; m_strats := m_strats m; m_mixcats := m_mixcats m; m_strains := m_strains m;
        m_actions := m_actions m; m_initpop := m_initpop m; m_arraypop := m_arraypop m;
        m_requests := m_requests m; m_whitelist := m_whitelist m; m_cvs := m_cvs m;
        m_defaults := m_defaults m; m_finalized := true |}.

(* model.set_default_parameters: replaces the defaults (and drops the cached runner, Model/Api.v);
   the finalisation flag is not touched *)
Definition set_default_parameters (m : model) (d : list (string * Q)) : model :=
  {| m_times := m_times m; m_comps := m_comps m; m_orig := m_orig m; m_infectious := m_infectious m;
     m_flows := m_flows m; m_strats := m_strats m; m_mixcats := m_mixcats m; m_strains := m_strains m;
     m_actions := m_actions m; m_initpop := m_initpop m; m_arraypop := m_arraypop m;
     m_requests := m_requests m; m_whitelist := m_whitelist m; m_cvs := m_cvs m;
     m_defaults := d; m_finalized := m_finalized m |}.

(* ---------------------------------------------------------------------------------- queries *)
(* model.query_compartments(query) without tags / with the "infectious" tag *)
Definition is_infectious_comp (m : model) (c : comp) : bool := mem_str (c_name c) (m_infectious m).

Definition query_compartments (m : model) (name : option string) (filt : strata) (inf_only : bool)
  : result (list comp) :=
  do base <- (match name with
              | Some n => if existsb (fun c => String.eqb n (c_name c)) (m_comps m)
                          then Ok (filter (fun c => String.eqb n (c_name c)) (m_comps m))
                          else Err "KeyError: no compartment with that name"
              | None => Ok (m_comps m) end);
  Ok (filter (fun c => query_match c filt && (negb inf_only || is_infectious_comp m c)) base).

(* model.query_flows(flow_name, source=, dest=): strata-only filters on each end *)
Definition query_flows (m : model) (name : option string) (src_f dst_f : strata) : list flow :=
  filter (fun f =>
            match name with Some n => String.eqb n (f_name f) | None => true end
            && opt_has_strata (f_src f) src_f && opt_has_strata (f_dst f) dst_f) (m_flows m).
