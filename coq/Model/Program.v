(* Build programs: the operation sequences of the public API that the correspondence harness
   executes on the real summer2 and on this model. *)
From Coq Require Import QArith List String Bool Arith.
Import ListNotations.
From S2 Require Import Base.Num Base.Arr Model.Expr Model.Struct Model.Rates Model.InitPop
     Model.Derived.
Local Open Scope nat_scope.

(* What a caller may hand over as a flow rate.  Python values carry no static type: the flow-adding
   methods check the value first (_validate_flowparam, model.py) and refuse everything that is neither a
   number nor a graph object. *)
Inductive pyval :=
| PyNum (q : Q)                 (* int / float / NumPy real *)
| PyGraph (e : expr)            (* Parameter, Function, Time, ... *)
| PyStr (s : string)
| PyNone
| PyList (l : list Q).          (* list / tuple / array of numbers *)

Definition validate_flowparam (v : pyval) : result expr :=
  match v with
  | PyNum q => Ok (EConst q)
  | PyGraph e => Ok e
  | _ => Err "TypeError: Flow parameter must be GraphObject or float"
  end.

Definition with_param (fs : flow_spec) (e : expr) : flow_spec :=
  let 'FlowSpec k name _ src dst src_f dst_f expected split := fs in FlowSpec k name e src dst src_f dst_f expected split.

Definition fs_kind (fs : flow_spec) : fkind := let 'FlowSpec k _ _ _ _ _ _ _ _ := fs in k.

(* the flow-adding methods validate the rate before anything else; add_replacement_birth_flow takes no rate *)
Definition add_flow_dyn (m : model) (v : pyval) (fs : flow_spec) : result model :=
  match fs_kind fs with
  | KRepl => add_flow m fs
  | _ => do e <- validate_flowparam v; add_flow m (with_param fs e)
  end.

Definition add_universal_death_dyn (m : model) (name : string) (v : pyval) : result model :=
  do e <- validate_flowparam v; add_universal_death m name e.

Inductive op :=
| OpPop (dist : list (string * expr))
| OpArrayPop (arr : list expr)
| OpFlow (fs : flow_spec)
| OpUDeath (name : string) (param : expr)
| OpStrat (s : strat)
| OpRebalance (sname : string) (filt : strata) (props : list (string * expr))
| OpRequest (name : string) (r : request) (save : bool)
| OpWhitelist (wl : list string)
| OpCV (name : string) (e : expr)
| OpFinalize
| OpSetDefaults (d : list (string * Q))
| OpFlowDyn (v : pyval) (fs : flow_spec)            (* a flow whose rate is an arbitrary Python value *)
| OpUDeathDyn (name : string) (v : pyval).

Definition apply_op (m : model) (o : op) : result model :=
  match o with
  | OpPop dist => set_initial_population m dist
  | OpArrayPop arr => init_population_with_graphobject m arr
  | OpFlow fs => add_flow m fs
  | OpUDeath name param => add_universal_death m name param
  | OpStrat s => stratify_with m s
  | OpRebalance sname filt props => adjust_population_split m sname filt props
  | OpRequest name r save => request_output m name r save
  | OpWhitelist wl => Ok (set_whitelist m wl)
  | OpCV name e => add_computed_value m name e
  | OpFinalize => finalize m
  | OpSetDefaults d => Ok (set_default_parameters m d)
  | OpFlowDyn v fs => add_flow_dyn m v fs
  | OpUDeathDyn name v => add_universal_death_dyn m name v
  end.

(* run the ops; on the first error report its position (0 = the constructor) *)
Fixpoint apply_ops (m : model) (ops : list op) (k : nat) : model * option (nat * string) :=
  match ops with
  | [] => (m, None)
  | o :: t => match apply_op m o with
              | Ok m' => apply_ops m' t (S k)
              | Err w => (m, Some (k, w))
              end
  end.

Definition build (t0 t1 h : Q) (comps infectious : list string) (ops : list op)
  : option model * option (nat * string) :=
  match new_model t0 t1 h comps infectious with
  | Err w => (None, Some (0, w))
  | Ok m => let (m', e) := apply_ops m ops 1 in (Some m', e)
  end.

Definition build_ok (t0 t1 h : Q) (comps infectious : list string) (ops : list op) : option model :=
  match build t0 t1 h comps infectious ops with
  | (Some m, None) => Some m
  | _ => None
  end.

(* parameter environments as association lists of rationals *)
Definition env_of (O : NumOps) (l : list (string * Q)) : env O :=
  fun k => match assoc k l with Some q => of_Q O q | None => f0 O end.
