(* Initial population: runner/jax/stratify.py (index-array scatter per stratification),
   population.py (rebalance), tracker.py (replay of the recorded actions). *)
From Coq Require Import QArith List String Bool Arith.
Import ListNotations.
From S2 Require Import Base.Num Base.Arr Model.Expr Model.Struct.
Local Open Scope nat_scope.

(* Stratification._stratify_compartments index bookkeeping *)
Record strat_idx := {
  si_strat_base : list nat;
  si_pass_base : list nat;
  si_pass_target : list nat;
  si_stratum_target : list (list nat);     (* per stratum, in declaration order *)
  si_new_size : nat }.

Fixpoint strat_indices_from (s : strat) (cs : list comp) (base idx : nat) (acc : strat_idx) : strat_idx :=
  match cs with
  | [] => {| si_strat_base := si_strat_base acc; si_pass_base := si_pass_base acc;
             si_pass_target := si_pass_target acc; si_stratum_target := si_stratum_target acc;
             si_new_size := idx |}
  | c :: t =>
      let n := List.length (s_strata s) in
      if has_name_in_list c (s_comps s) then
        strat_indices_from s t (S base) (idx + n)
          {| si_strat_base := si_strat_base acc ++ [base]; si_pass_base := si_pass_base acc;
             si_pass_target := si_pass_target acc;
             si_stratum_target := map (fun kl => snd kl ++ [idx + fst kl]) (enumerate (si_stratum_target acc));
             si_new_size := 0 |}
      else
        strat_indices_from s t (S base) (S idx)
          {| si_strat_base := si_strat_base acc; si_pass_base := si_pass_base acc ++ [base];
             si_pass_target := si_pass_target acc ++ [idx];
             si_stratum_target := si_stratum_target acc; si_new_size := 0 |}
  end.

Definition strat_indices (s : strat) (cs : list comp) : strat_idx :=
  strat_indices_from s cs 0 0
    {| si_strat_base := []; si_pass_base := []; si_pass_target := [];
       si_stratum_target := map (fun _ => []) (s_strata s); si_new_size := 0 |}.

Section Numeric.
Variable O : NumOps.
Notation F := (F O).
Notation env := (env O).

Definition static_eval (p : env) (e : expr) : F := eval O p (f0 O) [] e.

(* stratify.get_stratify_compartments_func: scatter pass-through values, then one scatter per stratum *)
Definition stratify_values (p : env) (s : strat) (cs : list comp) (vals : list F) : list F :=
  let si := strat_indices s cs in
  let out := repeat (f0 O) (si_new_size si) in
  let out := scatter_set out (si_pass_target si) (gather (f0 O) vals (si_pass_base si)) in
  let base := gather (f0 O) vals (si_strat_base si) in
  fold_left (fun acc kt =>
               let prop := match assoc (fst kt) (s_split s) with
                           | Some e => static_eval p e
                           | None => of_Q O (1 # Pos.of_nat (List.length (s_strata s))) end in
               scatter_set acc (snd kt) (map (fun v => fmul O v prop) base))
            (combine (s_strata s) (si_stratum_target si)) out.

(* population.get_rebalanced_population *)
Definition strata_remove (s : strata) (k : string) : strata :=
  filter (fun kv => negb (String.eqb (fst kv) k)) s.

Fixpoint dedup_groups (l : list (string * strata)) : list (string * strata) :=
  match l with
  | [] => []
  | g :: t => g :: filter (fun g' => negb (String.eqb (fst g) (fst g') &&
                                           (forallb (has_pair (snd g')) (snd g) && forallb (has_pair (snd g)) (snd g'))))
                          (dedup_groups t)
  end.

Definition rebalance (p : env) (m : model) (pop : list F) (sname : string) (filt : strata)
           (props : list (string * expr)) : list F :=
  let strat_comps := filter (fun c => match strata_get (c_strata c) sname with Some _ => true | None => false end
                                      && has_strata c filt) (m_comps m) in
  let groups := dedup_groups (map (fun c => (c_name c, strata_remove (c_strata c) sname)) strat_comps) in
  fold_left (fun out g =>
               let idx := find_indices (fun c => String.eqb (fst g) (c_name c) && has_strata c (snd g)) (m_comps m) in
               let total := fsum O (gather (f0 O) pop idx) in
               fold_left (fun out' i =>
                            match nth_error (m_comps m) i with
                            | Some c =>
                                match strata_get (c_strata c) sname with
                                | Some k =>
                                    match assoc k props with
                                    | Some e => set_nth out' i (fmul O total (static_eval p e))
                                    | None => out'
                                    end
                                | None => out'    (* KeyError in the code: not reached for valid requests *)
                                end
                            | None => out'
                            end) idx out)
            groups pop.

(* stratify.get_calculate_initial_pop *)
Definition initial_population (m : model) (p : env) : list F :=
  match m_arraypop m with
  | Some arr => map (static_eval p) arr
  | None =>
      let dist := match m_initpop m with Some d => d | None => [] end in
      let init := map (fun n => match assoc n dist with Some e => static_eval p e | None => f0 O end) (m_orig m) in
      let cs0 := map (fun n => {| c_name := n; c_strata := [] |}) (m_orig m) in
      fst (fold_left (fun (st : list F * list comp) a =>
                   match a with
                   | AStratify s => (stratify_values p s (snd st) (fst st), stratify_comps s (snd st))
                   | ARebalance sname filt props => (rebalance p m (fst st) sname filt props, snd st)
                   end) (m_actions m) (init, cs0))
  end.

End Numeric.
