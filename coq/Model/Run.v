(* run_model / one_step of runner/jax/model_impl.py assembled from the stages. *)
From Coq Require Import QArith List String Bool Arith.
Import ListNotations.
From S2 Require Import Base.Num Base.Arr Model.Expr Model.Struct Model.Rates Model.InitPop
     Model.Solvers Model.Derived Gen.SolversGen.
Local Open Scope nat_scope.

Inductive solver := Euler | RK4.

Definition num_times (m : model) : nat :=
  let '(t0, t1, h) := m_times m in
  Z.to_nat (Qnum (Qred (1 + (t1 - t0) / h)%Q)).

Section Numeric.
Variable O : NumOps.
Notation F := (F O).
Notation env := (env O).

Record step_result := {
  sr_flow_rates : list F; sr_comp_rates : list F; sr_init_pop : list F;
  sr_inf_mul : list F }.

(* runner.impl_dict["one_step"](parameters, t, comp_vals) *)
Definition one_step (m : model) (p : env) (t : option F) (x : option (list F)) : result step_result :=
  do b <- prepare_structural m;
  let '(t0, _, _) := m_times m in
  let tv := match t with Some t => t | None => of_Q O t0 end in
  let init := initial_population O m p in
  let xv := match x with Some x => x | None => init end in
  let fr := get_flow_rates O m b p tv xv in
  Ok {| sr_flow_rates := fr;
        sr_comp_rates := get_comp_rates_of O (List.length (m_comps m)) b fr;
        sr_init_pop := xv;
        sr_inf_mul := match b_process b with
                      | Some freq => infectious_multipliers O m b freq p tv xv
                      | None => [] end |}.

Record run_result := {
  rr_outputs : list (list F);
  rr_derived : list (string * list F) }.

Definition times_F (m : model) : list F :=
  let '(t0, _, h) := m_times m in
  map (fun i => of_Q O (t0 + inject_Z (Z.of_nat i) * h)%Q) (seq 0 (num_times m)).

(* runner.run(parameters) with solver euler / rk4.  [p] is what the (possibly frozen) model graph
   sees; [pd] is what the derived-output functions see (run_model: do_base_params updated with the
   run-time parameters - the derived-output graph is not frozen) *)
Definition run_model_gen (m : model) (s : solver) (p pd : env) : result run_result :=
  do b <- prepare_structural m;
  let '(t0, _, h) := m_times m in
  let n := num_times m in
  let y0 := initial_population O m p in
  let f := fun t y => get_comp_rates O m b p t y in
  (* the step bodies are the ones translated from runner/jax/solvers.py on this run *)
  let step := match s with Euler => gen_euler_step O | RK4 => gen_rk4_step O end in
  let outputs := solve_fixed O step f (of_Q O t0) (of_Q O h) y0 (n - 1) in
  let ts := times_F m in
  let flows := zip_with (fun t y => get_flow_rates O m b p t y) ts outputs in
  let cvs := map (fun ke => (fst ke, zip_with (fun t y => eval O p t (vclean O y) (snd ke)) ts outputs)) (m_cvs m) in
  do d <- derived_outputs O m pd n outputs flows cvs;
  Ok {| rr_outputs := outputs; rr_derived := d |}.

Definition run_model (m : model) (s : solver) (p : env) : result run_result := run_model_gen m s p p.

End Numeric.
