(* Derived outputs: runner/jax/derived_outputs.py and the request graph of model.py. *)
From Coq Require Import QArith List String Bool Arith.
Import ListNotations.
From S2 Require Import Base.Num Base.Arr Model.Expr Model.Struct.
Local Open Scope nat_scope.

Definition request_sources (r : request) : list string :=
  match r with
  | RAgg srcs => srcs
  | RCum s _ => [s]
  | RFunc _ srcs _ => srcs
  | _ => []
  end.

(* targets and all their ancestors in the request graph (ComputeGraph.filter(targets=...)).
   Requests are scanned from the last declared to the first: a source is always declared
   before its user. *)
Fixpoint needed_rev (rev_reqs : list (string * (request * bool))) (needed : list string) : list string :=
  match rev_reqs with
  | [] => needed
  | (name, (r, _)) :: t =>
      if mem_str name needed then needed_rev t (needed ++ request_sources r) else needed_rev t needed
  end.

Definition needed_for (reqs : list (string * (request * bool))) (targets : list string) : list string :=
  needed_rev (rev reqs) targets.

(* derived_outputs.build_flow_output selection *)
Definition do_flow_match (f : flow) (name : string) (sf df : strata) : bool :=
  String.eqb (f_name f) name
  && match f_src f with None => true | Some c => has_strata c sf end
  && match f_dst f with None => true | Some c => has_strata c df end.

(* derived_outputs.build_compartment_output selection *)
Definition do_comp_match (c : comp) (names : list string) (filt : strata) : bool :=
  has_name_in_list c names && is_match c (c_name c) filt.

Section Numeric.
Variable O : NumOps.
Notation F := (F O).

Definition col_sum (rows : list (list F)) (idx : list nat) : list F :=
  map (fun row => fsum O (gather (f0 O) row idx)) rows.

Definition half : F := fdiv O (f1 O) (fadd O (f1 O) (f1 O)).

(* midpoint_output: first raw value kept, then means of neighbours *)
Fixpoint midpoints (prev : F) (l : list F) : list F :=
  match l with
  | [] => []
  | v :: t => fmul O (fadd O v prev) half :: midpoints v t
  end.
Definition midpoint_output (vals : list F) : list F :=
  match vals with [] => [] | v :: t => v :: midpoints v t end.

Fixpoint cumsum_from (acc : F) (l : list F) : list F :=
  match l with [] => [] | v :: t => let a := fadd O acc v in a :: cumsum_from a t end.
Definition cumsum (l : list F) : list F := cumsum_from (f0 O) l.

Definition indexed_cumsum (start : nat) (l : list F) : list F :=
  repeat (f0 O) (Nat.min start (List.length l)) ++ cumsum (skipn start l).

Definition vsum_lists (n : nat) (ls : list (list F)) : list F :=
  fold_left (vadd O) ls (repeat (f0 O) n).

(* the small function library a build program can request with request_function_output:
   0: k * s0      1: s0 + k * s1      2: s0 * s1 (element-wise) *)
Definition apply_fn (fn : nat) (srcs : list (list F)) (ps : list F) : list F :=
  let s0 := nth 0 srcs [] in let s1 := nth 1 srcs [] in let k := nth 0 ps (f0 O) in
  match fn with
  | 0 => vscale O k s0
  | 1 => vadd O s0 (vscale O k s1)
  | _ => vmul O s0 s1
  end.

(* index of a start time on the grid t0 + i*h: the time must be a grid time *)
Definition start_index (t0 h : Q) (ntimes : nat) (start : Q) : option nat :=
  let tmax := (t0 + inject_Z (Z.of_nat (ntimes - 1)) * h)%Q in
  let st := if Qle_bool start tmax then start else if Qeq_bool start 0 then start else tmax in
  let k := ((st - t0) / h)%Q in
  if q_is_int k && Qle_bool 0 k && Qle_bool k (inject_Z (Z.of_nat (ntimes - 1)))
  then Some (Z.to_nat (Qnum (Qred k))) else None.

Definition lookup_series (name : string) (acc : list (string * list F)) : list F :=
  match assoc name acc with Some s => s | None => [] end.

Definition eval_request (m : model) (p : string -> F) (ntimes : nat)
           (outputs flows : list (list F)) (cvs : list (string * list F))
           (acc : list (string * list F)) (r : request) : result (list F) :=
  match r with
  | RFlow name sf df raw =>
      let v := col_sum flows (find_indices (fun f => do_flow_match f name sf df) (m_flows m)) in
      Ok (if raw then v else midpoint_output v)
  | RComp names filt =>
      Ok (col_sum outputs (find_indices (fun c => do_comp_match c names filt) (m_comps m)))
  | RAgg srcs => Ok (vsum_lists ntimes (map (fun s => lookup_series s acc) srcs))
  | RCum s None => Ok (cumsum (lookup_series s acc))
  | RCum s (Some st) =>
      let '(t0, _, h) := m_times m in
      match start_index t0 h ntimes st with
      | Some i => Ok (indexed_cumsum i (lookup_series s acc))
      | None => Err "Start time not in times"
      end
  | RFunc fn srcs ps =>
      Ok (apply_fn fn (map (fun s => lookup_series s acc) srcs)
                   (map (fun e => eval O p (f0 O) [] e) ps))
  | RCV name =>
      match assoc name cvs with
      | Some s => Ok s
      | None => Err "KeyError: computed value"
      end
  end.

(* evaluate, in declaration order, the requests whose name is needed *)
Fixpoint eval_requests (m : model) (p : string -> F) (ntimes : nat)
         (outputs flows : list (list F)) (cvs : list (string * list F)) (needed : list string)
         (reqs : list (string * (request * bool))) (acc : list (string * list F))
  : result (list (string * list F)) :=
  match reqs with
  | [] => Ok acc
  | nr :: rest =>
      if mem_str (fst nr) needed then
        do v <- eval_request m p ntimes outputs flows cvs acc (fst (snd nr));
        eval_requests m p ntimes outputs flows cvs needed rest (acc ++ [(fst nr, v)])
      else eval_requests m p ntimes outputs flows cvs needed rest acc
  end.

(* build_derived_outputs_runner + calc_derived_outputs: evaluate (only) what is needed for the
   requested keys, return the requested keys *)
Definition derived_outputs (m : model) (p : string -> F) (ntimes : nat)
           (outputs flows : list (list F)) (cvs : list (string * list F))
  : result (list (string * list F)) :=
  let reqs := m_requests m in
  let out_keys := match m_whitelist m with
                  | [] => map fst (filter (fun nr => snd (snd nr)) reqs)
                  | wl => wl end in
  check guard (forallb (fun k => existsb (fun nr => String.eqb k (fst nr)) reqs) out_keys)
              "KeyError: whitelisted output was never requested";
  (* every request's function is built, also of those the whitelist prunes: a cumulative output
     whose start time is not a model time fails the build whatever the whitelist *)
  check guard (forallb (fun nr => match fst (snd nr) with
                                  | RCum _ (Some st) =>
                                      let '(t0, _, h) := m_times m in
                                      match start_index t0 h ntimes st with Some _ => true | None => false end
                                  | _ => true end) reqs) "Start time not in times";
  let needed := match m_whitelist m with [] => map fst reqs | _ => needed_for reqs out_keys end in
  do acc <- eval_requests m p ntimes outputs flows cvs needed reqs [];
  Ok (map (fun k => (k, lookup_series k acc)) out_keys).

End Numeric.
