(* Run-time stages of a finalised model, in the shape of the code:
   runner/model_runner.py (prepare_structural: index arrays),
   parameters/param_impl.py (map_flow_keys: realised weights, Kronecker mixing),
   runner/jax/model_impl.py (clean, flow weights, flow rates, force of infection,
   compartment infectiousness, compartment rates).  No proofs in this file. *)
From Coq Require Import QArith List String Bool Arith.
Import ListNotations.
From S2 Require Import Base.Num Base.Arr Model.Expr Model.Struct.
Local Open Scope nat_scope.

(* --------------------------------------------------------------- structural preparation *)
Definition comp_index (cs : list comp) (c : comp) : nat :=
  match index_of (comp_eqb c) cs with Some i => i | None => 0 end.

Record backend := {
  b_population_idx : list nat;        (* source index per flow, dummy 0 for entry flows *)
  b_non_pop_idx : list nat;           (* replacement / import / absolute flows *)
  b_crude_idx : list nat;
  b_repl_idx : list nat;
  b_death_idx : list nat;
  b_infectious_flow_idx : list nat;
  b_pos_map : list (nat * nat);       (* (flow, destination compartment) *)
  b_neg_map : list (nat * nat);       (* (flow, source compartment) *)
  b_category_lookup : list nat;       (* compartment -> mixing category *)
  b_pop_cat_indexer : list (list nat);(* category -> its compartments *)
  b_strain_infectious_idx : list (list nat);       (* per strain *)
  b_strain_category_idx : list (list (list nat));  (* per strain: category -> local indices *)
  b_infect_strain_lookup : list nat;  (* per infection flow: strain index *)
  b_infect_cat_lookup : list nat;     (* per infection flow: category of its source *)
  b_process : option bool             (* None: no infection; Some true: frequency; Some false: density *)
}.

Definition kind_indices (p : fkind -> bool) (fl : list flow) : list nat :=
  find_indices (fun f => p (f_kind f)) fl.

(* model._get_strain_stratification_name() *)
Definition strain_strat_name (m : model) : option string :=
  match filter (fun s => is_strain (s_kind s)) (m_strats m) with
  | s :: _ => Some (s_name s)
  | [] => None
  end.

Definition strain_infectious_comps (m : model) (strain : string) : list nat :=
  let filt := match strain_strat_name m with Some n => [(n, strain)] | None => [] end in
  find_indices (fun c => query_match c filt && is_infectious_comp m c) (m_comps m).

(* last category that matches, as the loop in _build_compartment_category_map leaves it *)
Definition category_of (m : model) (c : comp) : nat :=
  fold_left (fun acc ic => if forallb (fun kv => has_stratum c (fst kv) (snd kv)) (snd ic)
                           then fst ic else acc) (enumerate (m_mixcats m)) 0.

Definition index_in (l : list nat) (x : nat) : nat :=
  match index_of (Nat.eqb x) l with Some i => i | None => 0 end.

Definition strain_of_dest (m : model) (f : flow) : string :=
  match f_dst f, strain_strat_name m with
  | Some d, Some n => match strata_get (c_strata d) n with Some s => s | None => "default"%string end
  | _, _ => "default"%string
  end.

Definition all_same_length {A} (rows : list (list A)) : bool :=
  match rows with
  | [] => true
  | r :: t => forallb (fun r' => Nat.eqb (List.length r') (List.length r)) t
  end.

Definition prepare_structural (m : model) : result backend :=
  let cs := m_comps m in
  let fl := m_flows m in
  let ncats := List.length (m_mixcats m) in
  let pop_cat := map (fun cat => find_indices (fun c => forallb (fun kv => has_stratum c (fst kv) (snd kv)) cat) cs)
                     (m_mixcats m) in
  check guard (all_same_length pop_cat) "np.stack: mixing categories of unequal size";
  let strain_inf := map (strain_infectious_comps m) (m_strains m) in
  let strain_local := map (fun inf_idx =>
                           map (index_in inf_idx)
                               (filter (fun j => existsb (Nat.eqb j) inf_idx) (List.concat pop_cat))) strain_inf in
  check guard (forallb (fun local => Nat.eqb (List.length local mod ncats) 0) strain_local)
              "reshape: strain infectious compartments not divisible by category count";
  let strain_cat := map (fun local => chunk (List.length local / ncats) local) strain_local in
  let inf_flows := kind_indices is_infection fl in
  do strain_lookup <- collect (fun i =>
        match nth_error fl i with
        | Some f => match index_of (String.eqb (strain_of_dest m f)) (m_strains m) with
                    | Some k => Ok [k]
                    | None => Err "ValueError: strain is not in list"
                    end
        | None => Err "internal" end) inf_flows;
  let cat_lookup := map (fun i => match nth_error fl i with
                                  | Some f => match f_src f with Some s => category_of m s | None => 0 end
                                  | None => 0 end) inf_flows in
  let has_freq := existsb (fun f => fkind_eqb (f_kind f) KInfFreq) fl in
  let has_dens := existsb (fun f => fkind_eqb (f_kind f) KInfDens) fl in
  check guard (negb (has_freq && has_dens)) "NotImplementedError: mixed infection frequency/density";
  Ok {| b_population_idx := map (fun f => match f_src f with Some s => comp_index cs s | None => 0 end) fl;
        b_non_pop_idx := kind_indices (fun k => match k with KRepl | KImport | KAbs => true | _ => false end) fl;
        b_crude_idx := kind_indices (fun k => fkind_eqb k KCrude) fl;
        b_repl_idx := kind_indices (fun k => fkind_eqb k KRepl) fl;
        b_death_idx := kind_indices (fun k => fkind_eqb k KDeath) fl;
        b_infectious_flow_idx := inf_flows;
        b_pos_map := flat_map (fun jf => match f_dst (snd jf) with
                                         | Some d => [(fst jf, comp_index cs d)] | None => [] end) (enumerate fl);
        b_neg_map := flat_map (fun jf => match f_src (snd jf) with
                                         | Some s => [(fst jf, comp_index cs s)] | None => [] end) (enumerate fl);
        b_category_lookup := map (category_of m) cs;
        b_pop_cat_indexer := pop_cat;
        b_strain_infectious_idx := strain_inf;
        b_strain_category_idx := strain_cat;
        b_infect_strain_lookup := strain_lookup;
        b_infect_cat_lookup := cat_lookup;
        b_process := if has_freq then Some true else if has_dens then Some false else None |}.

(* --------------------------------------------------------------- realised weight expressions *)
Definition adj_expr (a : adj) : expr := match a with AMul e | AOvr e => e end.

(* param_impl.map_flow_keys: Overwrite resets the factor list; the rest are multiplied *)
Definition realised_factors (f : flow) : list expr :=
  fold_left (fun acc a => match a with AOvr e => [e] | AMul e => acc ++ [e] end)
            (f_adjs f) [f_param f].

Definition realised_expr (f : flow) : expr :=
  match realised_factors f with
  | [] => EConst 1
  | e :: rest => fold_left EMul rest e
  end.

(* flows grouped by structurally equal realised expression (model._flow_key_map) *)
Fixpoint add_to_keymap (km : list (expr * list nat)) (e : expr) (i : nat) : list (expr * list nat) :=
  match km with
  | [] => [(e, [i])]
  | (e', is) :: t => if expr_eqb e e' then (e', is ++ [i]) :: t else (e', is) :: add_to_keymap t e i
  end.

Definition flow_key_map (fl : list flow) : list (expr * list nat) :=
  fold_left (fun km jf => add_to_keymap km (realised_expr (snd jf)) (fst jf)) (enumerate fl) [].

Section Numeric.
Variable O : NumOps.
Notation F := (F O).
Notation env := (env O).

Definition zeros (n : nat) : list F := repeat (f0 O) n.
Definition ones (n : nat) : list F := repeat (f1 O) n.

(* static keys are scattered once per run (evaluated without time/state), time-varying keys at
   every evaluation: model_impl.build_get_flow_weights + run_model/one_step *)
Definition static_flow_weights (p : env) (fl : list flow) : list F :=
  fold_left (fun w ke => if negb (mentions_mv (fst ke))
                         then scatter_const w (snd ke) (eval O p (f0 O) [] (fst ke)) else w)
            (flow_key_map fl) (zeros (List.length fl)).

Definition flow_weights (p : env) (t : F) (x : list F) (fl : list flow) : list F :=
  fold_left (fun w ke => if mentions_mv (fst ke)
                         then scatter_const w (snd ke) (eval O p t x (fst ke)) else w)
            (flow_key_map fl) (static_flow_weights p fl).

(* mixing matrix: Kronecker product of the stratifications' matrices in order of application *)
Definition eval_matrix (p : env) (t : F) (x : list F) (mm : list (list expr)) : list (list F) :=
  map (map (eval O p t x)) mm.

Definition mixing_matrix (m : model) (p : env) (t : F) (x : list F) : list (list F) :=
  match flat_map (fun s => opt_to_list (s_mix s)) (m_strats m) with
  | [] => [[f1 O]]
  | m0 :: rest => fold_left (fun acc mm => kron O acc (eval_matrix p t x mm)) rest (eval_matrix p t x m0)
  end.

(* model_impl.build_get_compartment_infectiousness *)
Definition apply_iadj (m : model) (p : env) (sname : string) (inf : list F)
           (ce : string * list (string * option adj)) : list F :=
  fold_left (fun acc sa =>
      match snd sa with
      | None => acc
      | Some a =>
          let v := eval O p (f0 O) [] (adj_expr a) in
          let targets := find_indices (fun c => String.eqb (fst ce) (c_name c)
                                                && query_match c [(sname, fst sa)]) (m_comps m) in
          fold_left (fun acc' i => match a with
                                   | AOvr _ => set_nth acc' i v
                                   | AMul _ => set_nth acc' i (fmul O v (get_clamp (f0 O) acc' i))
                                   end) targets acc
      end) (snd ce) inf.

Definition compartment_infectiousness (m : model) (p : env) : list F :=
  fold_left (fun inf s => fold_left (apply_iadj m p (s_name s)) (s_iadj s) inf)
            (m_strats m) (ones (List.length (m_comps m))).

(* model_impl.get_force_of_infection, for one strain *)
Definition force_of_infection (freq : bool) (inf_vals infness : list F) (cat_idx : list (list nat))
           (mix : list (list F)) (cat_pops : list F) : list F :=
  let infected := vmul O inf_vals infness in
  let inf_pops := map (fun row => fsum O (gather (f0 O) infected row)) cat_idx in
  if freq then matvec O mix (vdiv O inf_pops cat_pops) else matvec O mix inf_pops.

(* model_impl.build_get_infectious_multipliers: one multiplier per infection flow *)
Definition infectious_multipliers (m : model) (b : backend) (freq : bool) (p : env) (t : F) (x : list F)
  : list F :=
  let mix := mixing_matrix m p t x in
  let cat_pops := map (fun row => fsum O (gather (f0 O) x row)) (b_pop_cat_indexer b) in
  let infness := compartment_infectiousness m p in
  let per_strain :=
      map (fun k =>
             let inf_idx := nth k (b_strain_infectious_idx b) [] in
             force_of_infection freq (gather (f0 O) x inf_idx) (gather (f0 O) infness inf_idx)
                                (nth k (b_strain_category_idx b) []) mix cat_pops)
          (seq 0 (List.length (m_strains m))) in
  zip_with (fun sk ck => get_clamp (f0 O) (nth sk per_strain []) ck)
           (b_infect_strain_lookup b) (b_infect_cat_lookup b).

(* model_impl.build_get_flow_rates, stage by stage *)
(* populations seen by each flow: source compartment, 1 for population-independent flows,
   total population for crude births *)
Definition flow_populations (b : backend) (x : list F) : list F :=
  scatter_const (scatter_const (gather (f0 O) x (b_population_idx b)) (b_non_pop_idx b) (f1 O))
                (b_crude_idx b) (fsum O x).

Definition apply_infection (m : model) (b : backend) (p : env) (t : F) (x : list F) (rates : list F) : list F :=
  match b_process b with
  | None => rates
  | Some freq =>
      scatter_set rates (b_infectious_flow_idx b)
                  (vmul O (gather (f0 O) rates (b_infectious_flow_idx b))
                          (infectious_multipliers m b freq p t x))
  end.

Definition apply_replacement (b : backend) (rates : list F) : list F :=
  match b_repl_idx b with
  | [] => rates
  | _ => let deaths := fsum O (gather (f0 O) rates (b_death_idx b)) in
         scatter_set rates (b_repl_idx b)
                     (map (fun r => fmul O r deaths) (gather (f0 O) rates (b_repl_idx b)))
  end.

Definition get_flow_rates (m : model) (b : backend) (p : env) (t : F) (x0 : list F) : list F :=
  let x := vclean O x0 in
  apply_replacement b
    (apply_infection m b p t x (vmul O (flow_weights p t x (m_flows m)) (flow_populations b x))).

(* model_impl.build_get_compartment_rates: application matrix times flow rates *)
Definition get_comp_rates_of (ncomp : nat) (b : backend) (rates : list F) : list F :=
  map (fun s =>
         fsub O (fsum O (map (fun ft => if Nat.eqb (snd ft) s then get_clamp (f0 O) rates (fst ft) else f0 O) (b_pos_map b)))
                (fsum O (map (fun ft => if Nat.eqb (snd ft) s then get_clamp (f0 O) rates (fst ft) else f0 O) (b_neg_map b))))
      (seq 0 ncomp).

Definition get_comp_rates (m : model) (b : backend) (p : env) (t : F) (x : list F) : list F :=
  get_comp_rates_of (List.length (m_comps m)) b (get_flow_rates m b p t x).

End Numeric.
