(* C19: a model of what jax tracing does to Python code.

   A small expression language for the bodies of the array kernels (Python expressions over
   jax.numpy / lax), with two semantics:

     ev  - the ordinary (eager) meaning of the code on concrete values;
     pe  - tracing: every value is either Known (a concrete Python / numpy value, available when
           the runner is built) or Traced (a value that depends on the run-time inputs - only its
           shape is available; the value itself is a function of the run-time inputs that tracing
           can compose but never inspect).  Array operations on traced values give traced values;
           Python-level decisions (if / bool() / int() / index into a Python container / a shape)
           on a traced value are a ConcretizationTypeError - outcome Conc.

   and a binding-time check bt_check (static / dynamic) that is proved to exclude Conc
   (Proofs/TraceProofs.v).  The kernels of summer2/functions/util.py, interpolate.py and the
   solvers are translated into this language on every run (Gen/TraceGen.v). *)
From Coq Require Import QArith ZArith List String Bool Arith.
Import ListNotations.
Local Open Scope nat_scope.
Local Notation length := List.length.

(* ------------------------------------------------------------------------------ values *)
Inductive val :=
| VS (q : Q)                  (* scalar (Python number or 0-d array; booleans are 0 / 1) *)
| VA (l : list Q)             (* 1-d array *)
| VP (a b : val).             (* tuple *)

Inductive shape := ShS | ShA (n : nat) | ShP (a b : shape).

Fixpoint shape_of (v : val) : shape :=
  match v with
  | VS _ => ShS
  | VA l => ShA (length l)
  | VP a b => ShP (shape_of a) (shape_of b)
  end.

Fixpoint shape_eqb (a b : shape) : bool :=
  match a, b with
  | ShS, ShS => true
  | ShA n, ShA m => Nat.eqb n m
  | ShP a1 a2, ShP b1 b2 => shape_eqb a1 b1 && shape_eqb a2 b2
  | _, _ => false
  end.

Inductive prim1 := PNeg | PNot | PSum | PToInt.
Inductive prim2 := PAdd | PSub | PMul | PDiv | PLt | PLe | PEq | PAnd | PMax | PMin | PIndex.
Inductive prim3 := PWhere | PUpd.

Definition qbool (b : bool) : Q := if b then 1%Q else 0%Q.
Definition qtrue (q : Q) : bool := negb (Qeq_bool q 0).
Definition qtrunc (q : Q) : Q := inject_Z (Z.quot (Qnum q) (Zpos (Qden q))).

Definition sem1s (op : prim1) (q : Q) : Q :=
  match op with
  | PNeg => (- q)%Q
  | PNot => qbool (negb (qtrue q))
  | PSum => q
  | PToInt => qtrunc q
  end.

Definition sem1 (op : prim1) (v : val) : option val :=
  match op, v with
  | PSum, VA l => Some (VS (fold_left Qplus l 0%Q))
  | _, VS q => Some (VS (sem1s op q))
  | _, VA l => Some (VA (map (sem1s op) l))
  | _, VP _ _ => None
  end.

Definition sem2s (op : prim2) (a b : Q) : Q :=
  match op with
  | PAdd => (a + b)%Q | PSub => (a - b)%Q | PMul => (a * b)%Q | PDiv => (a / b)%Q
  | PLt => qbool (negb (Qle_bool b a)) | PLe => qbool (Qle_bool a b) | PEq => qbool (Qeq_bool a b)
  | PAnd => qbool (qtrue a && qtrue b)
  | PMax => if Qle_bool a b then b else a
  | PMin => if Qle_bool a b then a else b
  | PIndex => a
  end.

(* gather with a clamped index, negative indices counted from the end (as XLA / the shim do) *)
Definition clamp_index (n : nat) (q : Q) : nat :=
  let z := Z.quot (Qnum q) (Zpos (Qden q)) in
  let z := if (z <? 0)%Z then (z + Z.of_nat n)%Z else z in
  Z.to_nat (Z.max 0 (Z.min z (Z.of_nat n - 1))).

Fixpoint zip_with {A B C} (f : A -> B -> C) (a : list A) (b : list B) : list C :=
  match a, b with
  | x :: a', y :: b' => f x y :: zip_with f a' b'
  | _, _ => []
  end.

Definition sem2 (op : prim2) (a b : val) : option val :=
  match op, a, b with
  | PIndex, VA l, VS i => Some (VS (nth (clamp_index (length l) i) l 0%Q))
  | PIndex, _, _ => None
  | _, VS x, VS y => Some (VS (sem2s op x y))
  | _, VA l, VS y => Some (VA (map (fun x => sem2s op x y) l))
  | _, VS x, VA l => Some (VA (map (fun y => sem2s op x y) l))
  | _, VA l1, VA l2 => if Nat.eqb (length l1) (length l2) then Some (VA (zip_with (sem2s op) l1 l2)) else None
  | _, _, _ => None
  end.

Fixpoint set_nth (l : list Q) (i : nat) (v : Q) : list Q :=
  match l, i with
  | [], _ => []
  | _ :: t, O => v :: t
  | h :: t, S k => h :: set_nth t k v
  end.

Definition sem3 (op : prim3) (a b c : val) : option val :=
  match op, a, b, c with
  | PWhere, VS p, VS x, VS y => Some (VS (if qtrue p then x else y))
  | PWhere, VA p, VA x, VA y =>
      if Nat.eqb (length p) (length x) && Nat.eqb (length p) (length y)
      then Some (VA (zip_with (fun pq xy => if qtrue pq then fst xy else snd xy) p (zip_with pair x y))) else None
  | PWhere, VA p, VS x, VA y =>
      if Nat.eqb (length p) (length y) then Some (VA (zip_with (fun pq yq => if qtrue pq then x else yq) p y)) else None
  | PWhere, VA p, VA x, VS y =>
      if Nat.eqb (length p) (length x) then Some (VA (zip_with (fun pq xq => if qtrue pq then xq else y) p x)) else None
  | PWhere, VA p, VS x, VS y => Some (VA (map (fun pq => if qtrue pq then x else y) p))
  | PUpd, VA l, VS i, VS v =>
      (* x.at[i].set(v): an out-of-range index is dropped *)
      let z := Z.quot (Qnum i) (Zpos (Qden i)) in
      let z := if (z <? 0)%Z then (z + Z.of_nat (length l))%Z else z in
      if ((0 <=? z) && (z <? Z.of_nat (length l)))%Z then Some (VA (set_nth l (Z.to_nat z) v)) else Some (VA l)
  | _, _, _, _ => None
  end.

(* shapes of the results, computable without the values *)
Definition shape1 (op : prim1) (s : shape) : option shape :=
  match op, s with
  | PSum, ShA _ => Some ShS
  | _, ShS => Some ShS
  | _, ShA n => Some (ShA n)
  | _, ShP _ _ => None
  end.

Definition shape2 (op : prim2) (a b : shape) : option shape :=
  match op, a, b with
  | PIndex, ShA _, ShS => Some ShS
  | PIndex, _, _ => None
  | _, ShS, ShS => Some ShS
  | _, ShA n, ShS => Some (ShA n)
  | _, ShS, ShA n => Some (ShA n)
  | _, ShA n, ShA m => if Nat.eqb n m then Some (ShA n) else None
  | _, _, _ => None
  end.

Definition shape3 (op : prim3) (a b c : shape) : option shape :=
  match op, a, b, c with
  | PWhere, ShS, ShS, ShS => Some ShS
  | PWhere, ShA n, ShA m, ShA k => if Nat.eqb n m && Nat.eqb n k then Some (ShA n) else None
  | PWhere, ShA n, ShS, ShA k => if Nat.eqb n k then Some (ShA n) else None
  | PWhere, ShA n, ShA m, ShS => if Nat.eqb n m then Some (ShA n) else None
  | PWhere, ShA n, ShS, ShS => Some (ShA n)
  | PUpd, ShA n, ShS, ShS => Some (ShA n)
  | _, _, _, _ => None
  end.

(* ------------------------------------------------------------------------------ syntax *)
Inductive exp :=
| EVar (x : string)
| ELit (v : val)
| EP1 (op : prim1) (a : exp)
| EP2 (op : prim2) (a b : exp)
| EP3 (op : prim3) (a b c : exp)
| ELen (a : exp)                         (* len(a) / a.shape[0]: available under tracing *)
| ELet (x : string) (a body : exp)
| EPair (a b : exp)
| EFst (a : exp)
| ESnd (a : exp)
| EPyIf (c a b : exp)                    (* Python if / conditional expression / and / or / max() / min(): needs bool(c) *)
| EConcrete (a : exp)                    (* int(a), float(a), bool(a), a as index of a Python container, a.item() *)
| EAlloc (n : exp)                       (* jnp.zeros(n) / empty / arange: n is a shape *)
| ECond (c a b : exp)                    (* lax.cond / lax.switch on an array predicate: both branches are traced *)
| EDyn (a : exp)                         (* operand passed into cond / switch / loop body: a tracer inside *)
| EWhile (x : string) (c body init : exp)(* lax.while_loop / scan / fori_loop: the carry is a tracer *)
| ECall (f : string) (sh : shape) (a : exp).   (* a traced callback (get_comp_rates, the sigmoid): opaque array function *)

Definition env := list (string * val).

Fixpoint lookup {A} (x : string) (l : list (string * A)) : option A :=
  match l with
  | [] => None
  | (y, v) :: t => if String.eqb x y then Some v else lookup x t
  end.

(* ------------------------------------------------------------------------------ eager meaning *)
Section Semantics.
Variable ext : string -> val -> option val.     (* the callbacks *)
Variable fuel : nat.                            (* bound on loop iterations (None when exceeded) *)

(* lax.while_loop: the carry keeps its type (jax refuses a body that changes it) *)
Fixpoint iter_while (n : nat) (c b : val -> option val) (v : val) : option val :=
  match n with
  | O => None
  | S k => match c v with
           | Some (VS q) => if qtrue q
                            then match b v with
                                 | Some v' => if shape_eqb (shape_of v') (shape_of v) then iter_while k c b v' else None
                                 | None => None
                                 end
                            else Some v
           | _ => None
           end
  end.

Fixpoint ev (r : env) (e : exp) : option val :=
  match e with
  | EVar x => lookup x r
  | ELit v => Some v
  | EP1 op a => match ev r a with Some v => sem1 op v | None => None end
  | EP2 op a b => match ev r a, ev r b with Some x, Some y => sem2 op x y | _, _ => None end
  | EP3 op a b c => match ev r a, ev r b, ev r c with Some x, Some y, Some z => sem3 op x y z | _, _, _ => None end
  | ELen a => match ev r a with Some (VA l) => Some (VS (inject_Z (Z.of_nat (length l)))) | _ => None end
  | ELet x a body => match ev r a with Some v => ev ((x, v) :: r) body | None => None end
  | EPair a b => match ev r a, ev r b with Some x, Some y => Some (VP x y) | _, _ => None end
  | EFst a => match ev r a with Some (VP x _) => Some x | _ => None end
  | ESnd a => match ev r a with Some (VP _ y) => Some y | _ => None end
  | EPyIf c a b | ECond c a b =>
      match ev r c with Some (VS q) => if qtrue q then ev r a else ev r b | _ => None end
  | EConcrete a => match ev r a with Some (VS q) => Some (VS q) | _ => None end
  | EAlloc n => match ev r n with Some (VS q) => Some (VA (repeat 0%Q (Z.to_nat (Qnum q / Zpos (Qden q))))) | _ => None end
  | EDyn a => ev r a
  | EWhile x c body init =>
      match ev r init with
      | Some v0 => iter_while fuel (fun v => ev ((x, v) :: r) c) (fun v => ev ((x, v) :: r) body) v0
      | None => None
      end
  | ECall f sh a => match ev r a with
                    | Some v => match ext f v with
                                | Some w => if shape_eqb (shape_of w) sh then Some w else None
                                | None => None
                                end
                    | None => None
                    end
  end.

(* ------------------------------------------------------------------------------ tracing *)
Definition denv := string -> option val.      (* the run-time inputs *)

Inductive tval :=
| Known (v : val)
| Traced (sh : shape) (f : denv -> option val).

Inductive outcome :=
| Ok (t : tval)
| Conc (what : string)        (* ConcretizationTypeError / TracerArrayConversionError *)
| Other (what : string).      (* any other trace-time error (shapes, unbound names, types) *)

Definition tenv := list (string * tval).

Definition force (t : tval) (s : denv) : option val :=
  match t with Known v => Some v | Traced _ f => f s end.
Definition tshape (t : tval) : shape :=
  match t with Known v => shape_of v | Traced sh _ => sh end.

(* what the traced program sees of a variable environment at run time *)
Fixpoint inst (r : tenv) (s : denv) : option env :=
  match r with
  | [] => Some []
  | (x, t) :: r' => match force t s, inst r' s with
                    | Some v, Some e => Some ((x, v) :: e)
                    | _, _ => None
                    end
  end.

Definition bindo (o : outcome) (k : tval -> outcome) : outcome :=
  match o with Ok t => k t | Conc w => Conc w | Other w => Other w end.

Fixpoint pe (r : tenv) (e : exp) : outcome :=
  match e with
  | EVar x => match lookup x r with Some t => Ok t | None => Other "unbound name" end
  | ELit v => Ok (Known v)
  | EP1 op a =>
      bindo (pe r a) (fun ta =>
        match ta with
        | Known v => match sem1 op v with Some w => Ok (Known w) | None => Other "bad operand" end
        | Traced sh f => match shape1 op sh with
                         | Some sh' => Ok (Traced sh' (fun s => match f s with Some v => sem1 op v | None => None end))
                         | None => Other "bad operand shape"
                         end
        end)
  | EP2 op a b =>
      bindo (pe r a) (fun ta => bindo (pe r b) (fun tb =>
        match ta, tb with
        | Known x, Known y => match sem2 op x y with Some w => Ok (Known w) | None => Other "bad operands" end
        | _, _ => match shape2 op (tshape ta) (tshape tb) with
                  | Some sh' => Ok (Traced sh' (fun s => match force ta s, force tb s with
                                                         | Some x, Some y => sem2 op x y | _, _ => None end))
                  | None => Other "bad operand shapes"
                  end
        end))
  | EP3 op a b c =>
      bindo (pe r a) (fun ta => bindo (pe r b) (fun tb => bindo (pe r c) (fun tc =>
        match ta, tb, tc with
        | Known x, Known y, Known z => match sem3 op x y z with Some w => Ok (Known w) | None => Other "bad operands" end
        | _, _, _ => match shape3 op (tshape ta) (tshape tb) (tshape tc) with
                     | Some sh' => Ok (Traced sh' (fun s => match force ta s, force tb s, force tc s with
                                                            | Some x, Some y, Some z => sem3 op x y z | _, _, _ => None end))
                     | None => Other "bad operand shapes"
                     end
        end)))
  | ELen a =>
      bindo (pe r a) (fun ta =>
        match tshape ta with
        | ShA n => Ok (Known (VS (inject_Z (Z.of_nat n))))      (* static even for a tracer *)
        | _ => Other "len() of a non-array"
        end)
  | ELet x a body => bindo (pe r a) (fun ta => pe ((x, ta) :: r) body)
  | EPair a b =>
      bindo (pe r a) (fun ta => bindo (pe r b) (fun tb =>
        match ta, tb with
        | Known x, Known y => Ok (Known (VP x y))
        | _, _ => Ok (Traced (ShP (tshape ta) (tshape tb))
                        (fun s => match force ta s, force tb s with Some x, Some y => Some (VP x y) | _, _ => None end))
        end))
  | EFst a =>
      bindo (pe r a) (fun ta =>
        match ta with
        | Known (VP x _) => Ok (Known x)
        | Traced (ShP sa _) f => Ok (Traced sa (fun s => match f s with Some (VP x _) => Some x | _ => None end))
        | _ => Other "not a tuple"
        end)
  | ESnd a =>
      bindo (pe r a) (fun ta =>
        match ta with
        | Known (VP _ y) => Ok (Known y)
        | Traced (ShP _ sb) f => Ok (Traced sb (fun s => match f s with Some (VP _ y) => Some y | _ => None end))
        | _ => Other "not a tuple"
        end)
  | EPyIf c a b =>
      bindo (pe r c) (fun tc =>
        match tc with
        | Known (VS q) => if qtrue q then pe r a else pe r b
        | Known _ => Other "truth value of a non-scalar"
        | Traced _ _ => Conc "truth value of a traced array"
        end)
  | EConcrete a =>
      bindo (pe r a) (fun ta =>
        match ta with
        | Known (VS q) => Ok (Known (VS q))
        | Known _ => Other "concrete value of a non-scalar"
        | Traced _ _ => Conc "concrete value of a traced array"
        end)
  | EAlloc n =>
      bindo (pe r n) (fun tn =>
        match tn with
        | Known (VS q) => Ok (Known (VA (repeat 0%Q (Z.to_nat (Qnum q / Zpos (Qden q))))))
        | Known _ => Other "shape is not a number"
        | Traced _ _ => Conc "shape depends on a traced array"
        end)
  | ECond c a b =>
      (* both branches are traced, whatever the predicate; they must agree in shape *)
      bindo (pe r c) (fun tc => bindo (pe r a) (fun ta => bindo (pe r b) (fun tb =>
        match tshape tc with
        | ShS => if shape_eqb (tshape ta) (tshape tb)
                 then Ok (Traced (tshape ta)
                            (fun s => match force tc s with
                                      | Some (VS q) => if qtrue q then force ta s else force tb s
                                      | _ => None end))
                 else Other "branches of cond differ in shape"
        | _ => Other "predicate of cond is not a scalar"
        end)))
  | EDyn a => bindo (pe r a) (fun ta => Ok (Traced (tshape ta) (force ta)))
  | EWhile x c body init =>
      bindo (pe r init) (fun ti =>
        let sh := tshape ti in
        (* cond and body are traced once, with the carry a tracer of the carry's shape *)
        let r' := (x, Traced sh (fun _ => None)) :: r in
        bindo (pe r' c) (fun tc => bindo (pe r' body) (fun tb =>
          if shape_eqb (tshape tb) sh then
            match tshape tc with
            | ShS =>
                Ok (Traced sh (fun s =>
                      match force ti s, inst r s with
                      | Some v0, Some re =>
                          iter_while fuel (fun v => ev ((x, v) :: re) c) (fun v => ev ((x, v) :: re) body) v0
                      | _, _ => None
                      end))
            | _ => Other "loop condition is not a scalar"
            end
          else Other "loop carry changes shape")))
  | ECall f sh a =>
      bindo (pe r a) (fun ta =>
        Ok (Traced sh (fun s => match force ta s with
                                | Some v => match ext f v with
                                            | Some w => if shape_eqb (shape_of w) sh then Some w else None
                                            | None => None
                                            end
                                | None => None
                                end)))
  end.

End Semantics.

(* ------------------------------------------------------------------------------ binding times *)
Inductive bt := St | Dy.
Definition bjoin (a b : bt) : bt := match a, b with St, St => St | _, _ => Dy end.
Definition benv := list (string * bt).

Fixpoint bt_check (g : benv) (e : exp) : option bt :=
  match e with
  | EVar x => lookup x g
  | ELit _ => Some St
  | EP1 _ a => bt_check g a
  | EP2 _ a b => match bt_check g a, bt_check g b with Some x, Some y => Some (bjoin x y) | _, _ => None end
  | EP3 _ a b c => match bt_check g a, bt_check g b, bt_check g c with
                   | Some x, Some y, Some z => Some (bjoin x (bjoin y z)) | _, _, _ => None end
  | ELen a => match bt_check g a with Some _ => Some St | None => None end
  | ELet x a body => match bt_check g a with Some t => bt_check ((x, t) :: g) body | None => None end
  | EPair a b => match bt_check g a, bt_check g b with Some x, Some y => Some (bjoin x y) | _, _ => None end
  | EFst a | ESnd a => bt_check g a
  | EPyIf c a b => match bt_check g c, bt_check g a, bt_check g b with
                   | Some St, Some x, Some y => Some (bjoin x y)
                   | _, _, _ => None end
  | EConcrete a => match bt_check g a with Some St => Some St | _ => None end
  | EAlloc n => match bt_check g n with Some St => Some St | _ => None end
  | ECond c a b => match bt_check g c, bt_check g a, bt_check g b with
                   | Some _, Some _, Some _ => Some Dy | _, _, _ => None end
  | EDyn a => match bt_check g a with Some _ => Some Dy | None => None end
  | EWhile x c body init =>
      match bt_check g init, bt_check ((x, Dy) :: g) c, bt_check ((x, Dy) :: g) body with
      | Some _, Some _, Some _ => Some Dy | _, _, _ => None end
  | ECall _ _ a => match bt_check g a with Some _ => Some Dy | None => None end
  end.
