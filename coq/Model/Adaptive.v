(* The adaptive solver of runner/jax/ode.py (solver "solve_ivp" / odeint): one Dormand-Prince step
   (runge_kutta_step) over the coefficient tables translated from the source (Gen/OdeGen.v), the
   dense-output fit (interp_fit_dopri, through the translated fit_4th_order_polynomial), the
   accept / reject loop of _odeint and the scan over the requested times.  The step-size
   controller (mean_error_ratio, optimal_step_size, initial_step_size) is left abstract: every
   statement about this model holds for every controller. *)
From Coq Require Import QArith List Bool Arith.
Import ListNotations.
From S2 Require Import Base.Num Base.Arr Model.Solvers Gen.OdeGen.
Local Open Scope nat_scope.

Section Adaptive.
Variable O : NumOps.
Notation F := (F O).

(* jnp.dot(coefficients, k) for the stage matrix k (one row per stage), n = number of compartments *)
Definition lin_comb (n : nat) (cs : list Q) (ks : list (list F)) : list F :=
  fold_left (fun acc ck => vadd O acc (vscale O (of_Q O (fst ck)) (snd ck))) (combine cs ks) (repeat (f0 O) n).

Definition rk_stage (n : nat) (f : rhs O) (y0 : list F) (t0 dt : F) (k : list (list F)) (i : nat) : list (list F) :=
  let ti := fadd O t0 (fmul O dt (of_Q O (nth (i - 1) dp_alpha 0%Q))) in
  let yi := vadd O y0 (vscale O dt (lin_comb n (nth (i - 1) dp_beta []) k)) in
  set_nth k i (f ti yi).

(* k = zeros((7, n)).at[0].set(f0); fori_loop(1, 7, body_fun, k) *)
Definition rk_stages (n : nat) (f : rhs O) (y0 k0 : list F) (t0 dt : F) : list (list F) :=
  fold_left (rk_stage n f y0 t0 dt) [1; 2; 3; 4; 5; 6] (k0 :: repeat (repeat (f0 O) n) 6).

Record rk_result := { rk_y1 : list F; rk_f1 : list F; rk_err : list F; rk_k : list (list F) }.

Definition rk_step (n : nat) (f : rhs O) (y0 k0 : list F) (t0 dt : F) : rk_result :=
  let k := rk_stages n f y0 k0 t0 dt in
  {| rk_y1 := vadd O (vscale O dt (lin_comb n dp_c_sol k)) y0;
     rk_f1 := last k [];
     rk_err := vscale O dt (lin_comb n dp_c_error k);
     rk_k := k |}.

(* interp_fit_dopri: coefficient vectors a, b, c, d, e of the quartic through y0, y_mid, y1 *)
Definition coeffs := (list F * list F * list F * list F * list F)%type.

Fixpoint fit_vectors (y0 y1 ym dy0 dy1 : list F) (dt : F) : coeffs :=
  match y0, y1, ym, dy0, dy1 with
  | a0 :: y0', a1 :: y1', am :: ym', d0 :: dy0', d1 :: dy1' =>
      let '(a, b, c, d, e) := gen_fit_4th_order_polynomial O a0 a1 am d0 d1 dt in
      let '(la, lb, lc, ld, le) := fit_vectors y0' y1' ym' dy0' dy1' dt in
      (a :: la, b :: lb, c :: lc, d :: ld, e :: le)
  | _, _, _, _, _ => ([], [], [], [], [])
  end.

Definition interp_fit (n : nat) (y0 y1 : list F) (k : list (list F)) (dt : F) : coeffs :=
  let y_mid := vadd O y0 (vscale O dt (lin_comb n dp_c_mid k)) in
  fit_vectors y0 y1 y_mid (nth 0 k []) (last k []) dt.

(* jnp.polyval(interp_coeff, theta), row-wise *)
Definition polyval (c : coeffs) (th : F) : list F :=
  let '(a, b, cc, d, e) := c in
  vadd O (vscale O th (vadd O (vscale O th (vadd O (vscale O th (vadd O (vscale O th a) b)) cc)) d)) e.

(* the controller *)
Variable error_ratio : list F -> list F -> list F -> F.     (* mean_error_ratio(error, y, next_y) with rtol, atol *)
Variable next_dt : F -> F -> F.                              (* optimal_step_size(dt, ratio) *)

Record state := { st_y : list F; st_f : list F; st_t : F; st_dt : F; st_last_t : F; st_coeff : coeffs }.

(* body_fun of _odeint: one attempted step, kept iff error_ratio <= 1 (jnp.where over the whole carry) *)
Definition attempt (n : nat) (f : rhs O) (s : state) : state :=
  let r := rk_step n f (st_y s) (st_f s) (st_t s) (st_dt s) in
  let ratio := error_ratio (rk_err r) (st_y s) (rk_y1 r) in
  let dt' := next_dt (st_dt s) ratio in
  if fleb O ratio (f1 O) then
    {| st_y := rk_y1 r; st_f := rk_f1 r; st_t := fadd O (st_t s) (st_dt s); st_dt := dt';
       st_last_t := st_t s; st_coeff := interp_fit n (st_y s) (rk_y1 r) (rk_k r) (st_dt s) |}
  else
    {| st_y := st_y s; st_f := st_f s; st_t := st_t s; st_dt := dt';
       st_last_t := st_last_t s; st_coeff := st_coeff s |}.

(* while (t < target) & (i < mxstep) & (dt > 0) *)
Fixpoint advance (mxstep : nat) (n : nat) (f : rhs O) (s : state) (target : F) : state :=
  match mxstep with
  | 0 => s
  | S fuel => if fltb O (st_t s) target && fltb O (f0 O) (st_dt s)
              then advance fuel n f (attempt n f s) target else s
  end.

(* scan_fun: advance to the target, read the dense output there *)
Definition scan_step (mxstep n : nat) (f : rhs O) (s : state) (target : F) : state * list F :=
  let s' := advance mxstep n f s target in
  let th := fdiv O (fsub O target (st_last_t s')) (fsub O (st_t s') (st_last_t s')) in
  (s', polyval (st_coeff s') th).

Fixpoint scan (mxstep n : nat) (f : rhs O) (s : state) (targets : list F) : list (list F) :=
  match targets with
  | [] => []
  | tg :: rest => let (s', y) := scan_step mxstep n f s tg in y :: scan mxstep n f s' rest
  end.

(* _odeint: ys = [y0] ++ scan over ts[1:] *)
Definition odeint (mxstep n : nat) (f : rhs O) (y0 : list F) (t0 : F) (dt0 : F) (targets : list F) : list (list F) :=
  let s0 := {| st_y := y0; st_f := f t0 y0; st_t := t0; st_dt := dt0; st_last_t := t0;
               st_coeff := (y0, y0, y0, y0, y0) |} in
  y0 :: scan mxstep n f s0 targets.

End Adaptive.
