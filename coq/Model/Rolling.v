(* functions/derived.py: rolling difference and rolling-window reductions over a series.
   NaN (the head of the series, where the window is incomplete) is None. *)
From Coq Require Import List Arith.
Import ListNotations.
From S2 Require Import Base.Num Base.Arr.
Local Open Scope nat_scope.

Section Rolling.
Variable O : NumOps.
Notation F := (F O).

(* out.at[k:].set(vals): positions k, k+1, ... take vals in order (as many as fit) *)
Fixpoint set_from (out : list (option F)) (k : nat) (vals : list (option F)) : list (option F) :=
  match out, k with
  | [], _ => []
  | h :: t, S k' => h :: set_from t k' vals
  | _ :: t, 0 => match vals with
                 | v :: vs => v :: set_from t 0 vs
                 | [] => out
                 end
  end.

(* out.at[:k].set(v) *)
Fixpoint set_upto (out : list (option F)) (k : nat) (v : option F) : list (option F) :=
  match out, k with
  | h :: t, S k' => v :: set_upto t k' v
  | _, _ => out
  end.

(* get_rolling_diff(periods)(x):
     out = empty_like(x); out = out.at[periods:].set(x[periods:] - x[:-periods]); out = out.at[:periods].set(nan) *)
Definition rolling_diff (periods : nat) (x : list F) : list (option F) :=
  let n := length x in
  let out := repeat (Some (f0 O)) n in
  let d := zip_with (fsub O) (skipn periods x) (firstn (n - periods) x) in
  set_upto (set_from out periods (map Some d)) periods None.

(* _get_rolling_diff_backward(periods)(x), periods >= 0 the index distance forwards (get_rolling_diff sends its
   non-positive periods here, negated):
     if periods == 0: return x - x
     out = empty_like(x); out = out.at[:-periods].set(x[:-periods] - x[periods:]); out = out.at[-periods:].set(nan)
   (x[:-k] is the first len - k entries, .at[-k:] the positions from len - k on) *)
Definition rolling_diff_backward (periods : nat) (x : list F) : list (option F) :=
  let n := length x in
  match periods with
  | 0 => map Some (zip_with (fsub O) x x)
  | _ => let out := repeat (Some (f0 O)) n in
         let d := zip_with (fsub O) (firstn (n - periods) x) (skipn periods x) in
         set_from (set_from out 0 (map Some d)) (n - periods) (repeat None n)
  end.

(* _rolling_index(a, window): rows a[i : i + window] for i = 0 .. len(a) - window *)
Definition rolling_windows (window : nat) (x : list F) : list (list F) :=
  map (fun i => firstn window (skipn i x)) (seq 0 (if window <=? length x then length x - window + 1 else 0)).

(* get_rolling_reduction(func, window)(x):
     out = empty_like(x); agg = func(windowed, axis=1);
     out = out.at[:window].set(nan); out = out.at[window - 1:].set(agg) *)
Definition rolling_reduction (func : list F -> F) (window : nat) (x : list F) : list (option F) :=
  let out := repeat (Some (f0 O)) (length x) in
  let agg := map func (rolling_windows window x) in
  set_from (set_upto out window None) (window - 1) (map Some agg).

End Rolling.
