(* The calling interface of a built model as a state machine: model.run (with its cached runner),
   model.get_runner (returning runner handles), ModelResults.run, set_default_parameters.
   summer2/model.py: CompartmentalModel.run / get_runner / set_default_parameters, ModelResults.run;
   runner/jax/model_impl.py: build_run_model (freeze of the non-dynamic parameters).

   What a runner captures when it is built is represented by the data the Python closure
   captures: the (finalized) definition, the solver, the list of dynamic parameters, the
   build-time parameter values and the default parameters of that moment.  Freezing is
   represented by its meaning on environments (staged_env; Proofs/ParamProofs.freeze_correct
   shows that the syntactic freeze of an expression evaluates to exactly this). *)
From Coq Require Import QArith List String Bool Arith.
Import ListNotations.
From S2 Require Import Base.Num Base.Arr Model.Expr Model.Struct Model.Rates Model.InitPop
     Model.Solvers Model.Derived Model.Run Model.Program.
Local Open Scope nat_scope.

Definition params := list (string * Q).

(* every expression of a definition (the inputs of model.graph and of the derived-output tracker) *)
Definition adj_exprs (l : list adj) : list expr := map adj_expr l.
Definition oadj_exprs (l : list (string * option adj)) : list expr :=
  flat_map (fun sa => match snd sa with Some a => [adj_expr a] | None => [] end) l.
Definition strat_exprs (s : strat) : list expr :=
  map snd (s_split s)
  ++ flat_map (fun e => oadj_exprs (fst (fst (snd e)))) (s_fadj s)
  ++ flat_map (fun ce => oadj_exprs (snd ce)) (s_iadj s)
  ++ match s_mix s with Some mm => List.concat mm | None => [] end.
Definition action_exprs (a : action) : list expr :=
  match a with
  | AStratify s => strat_exprs s
  | ARebalance _ _ props => map snd props
  end.
(* (of the function library of Derived.apply_fn only functions 0 and 1 take a parameter, the first) *)
Definition request_exprs (r : request) : list expr :=
  match r with
  | RFunc 0 _ ps | RFunc 1 _ ps => firstn 1 ps
  | _ => []
  end.
Definition model_exprs (m : model) : list expr :=
  flat_map (fun f => f_param f :: adj_exprs (f_adjs f)) (m_flows m)
  ++ flat_map strat_exprs (m_strats m)
  ++ flat_map action_exprs (m_actions m)
  ++ match m_initpop m with Some d => map snd d | None => [] end
  ++ match m_arraypop m with Some a => a | None => [] end
  ++ map snd (m_cvs m)
  ++ flat_map (fun nr => request_exprs (fst (snd nr))) (m_requests m).
(* model.get_input_parameters() *)
Definition input_parameters (m : model) : list string := flat_map params_of (model_exprs m).

(* what a run reads: the same, except that derived-output functions pruned by the whitelist are not evaluated *)
Definition needed_requests (m : model) : list (string * (request * bool)) :=
  match m_whitelist m with
  | [] => m_requests m
  | wl => filter (fun nr => mem_str (fst nr) (needed_for (m_requests m) wl)) (m_requests m)
  end.
Definition run_parameters (m : model) : list string :=
  flat_map params_of
    (map realised_expr (m_flows m)       (* after an Overwrite the earlier factors are not part of the graph *)
     ++ flat_map strat_exprs (m_strats m)
     ++ flat_map action_exprs (m_actions m)
     ++ match m_initpop m with Some d => map snd d | None => [] end
     ++ match m_arraypop m with Some a => a | None => [] end
     ++ map snd (m_cvs m)
     ++ flat_map (fun nr => request_exprs (fst (snd nr))) (needed_requests m)).

Definition supplied (k : string) (p : params) : bool :=
  match assoc k p with Some _ => true | None => false end.

Definition solver_eqb (a b : solver) : bool :=
  match a, b with Euler, Euler | RK4, RK4 => true | _, _ => false end.

Section Api.
Variable O : NumOps.
Notation F := (F O).
Notation env := (env O).

(* what build_run_model + ModelResults.__init__ capture *)
Record runner := {
  r_model : model;
  r_solver : solver;
  r_dyn : option (list string);         (* None: every input parameter is dynamic *)
  r_base : params;                      (* build-time values, defaults merged in *)
  r_defaults : params }.                (* ModelResults.default_parameters *)

Definition api_staged_env (dyn : list string) (base : string -> option Q) (rt : env) : env :=
  fun k => if mem_str k dyn then rt k else match base k with Some q => of_Q O q | None => rt k end.

(* the parameter values a run of this runner sees *)
Definition runner_params (r : runner) (p : params) : params := p ++ r_defaults r.
Definition runner_env (r : runner) (p : params) : env :=
  let rt := env_of O (runner_params r p) in
  match r_dyn r with
  | None => rt
  | Some dyn => api_staged_env dyn (fun k => assoc k (r_base r)) rt
  end.

(* the derived-output graph is not frozen: its functions are evaluated with the run-time values, except that the
   parameters that are not dynamic keep their build-time values, as in the model graph (run_model: do_full_params) *)
Definition frozen_base (r : runner) : params :=
  match r_dyn r with
  | None => []
  | Some dyn => filter (fun kv => negb (mem_str (fst kv) dyn)) (r_base r)
  end.
Definition runner_env_derived (r : runner) (p : params) : env :=
  env_of O (frozen_base r ++ runner_params r p).

(* a parameter that the graph needs and that is neither frozen nor supplied is a KeyError *)
Definition missing (r : runner) (p : params) : list string :=
  filter (fun k => negb (supplied k (runner_params r p))
                   && match r_dyn r with
                      | None => true
                      | Some dyn => mem_str k dyn || negb (supplied k (r_base r))
                      end) (run_parameters (r_model r)).

(* ModelResults.run(parameters) *)
Definition runner_run (r : runner) (p : params) : result (run_result O) :=
  check guard (match missing r p with [] => true | _ => false end) "missing parameter";
  run_model_gen O (r_model r) (r_solver r) (runner_env r p) (runner_env_derived r p).

(* the object: definition, cached runner, handles given out, last results *)
Record api := {
  a_model : model;
  a_runner : option runner;                 (* model._runner *)
  a_handles : list runner;                  (* results of get_runner, by position *)
  a_last : option (result (run_result O)) } (* model.outputs / model.derived_outputs *).

Inductive call :=
| CRun (p : params) (s : solver) (rebuild : bool)
| CGetRunner (p : params) (dyn : option (list string)) (s : solver)
| CRunnerRun (k : nat) (p : params)
| CSetDefaults (d : params).

Definition with_defaults_model (m : model) (d : params) : model := set_default_parameters m d.

(* model.get_runner(parameters, dyn_params, solver=...) *)
Definition get_runner (m : model) (p : params) (dyn : option (list string)) (s : solver) : result (model * runner) :=
  do m' <- finalize m;
  Ok (m', {| r_model := m'; r_solver := s; r_dyn := dyn; r_base := p ++ m_defaults m';
             r_defaults := m_defaults m' |}).

Definition step (a : api) (c : call) : api * option (result (run_result O)) :=
  match c with
  | CRun p s rebuild =>
      (* the cached runner is reused only for the solver it was built with *)
      let cached := if rebuild then None else
                    match a_runner a with
                    | Some r => if solver_eqb (r_solver r) s then Some r else None
                    | None => None
                    end in
      match cached with
      | Some r =>
          let out := runner_run r p in
          ({| a_model := a_model a; a_runner := Some r; a_handles := a_handles a; a_last := Some out |}, Some out)
      | None =>
          match get_runner (a_model a) p None s with
          | Err w => ({| a_model := a_model a; a_runner := None; a_handles := a_handles a;
                         a_last := a_last a |}, Some (Err w))
          | Ok (m', r) =>
              let out := runner_run r p in
              ({| a_model := m'; a_runner := Some r; a_handles := a_handles a; a_last := Some out |}, Some out)
          end
      end
  | CGetRunner p dyn s =>
      match get_runner (a_model a) p dyn s with
      | Err w => (a, Some (Err w))
      | Ok (m', r) =>
          ({| a_model := m'; a_runner := a_runner a; a_handles := a_handles a ++ [r]; a_last := a_last a |}, None)
      end
  | CRunnerRun k p =>
      match nth_error (a_handles a) k with
      | None => (a, None)
      | Some r =>
          let out := runner_run r p in
          ({| a_model := a_model a; a_runner := a_runner a; a_handles := a_handles a; a_last := Some out |}, Some out)
      end
  | CSetDefaults d =>
      ({| a_model := with_defaults_model (a_model a) d; a_runner := None; a_handles := a_handles a;
          a_last := a_last a |}, None)
  end.

Definition init_api (m : model) : api :=
  {| a_model := m; a_runner := None; a_handles := []; a_last := None |}.

Fixpoint steps (a : api) (cs : list call) : api * list (option (result (run_result O))) :=
  match cs with
  | [] => (a, [])
  | c :: rest => let (a', o) := step a c in
                 let (a'', os) := steps a' rest in (a'', o :: os)
  end.

(* the specification: what a run with parameters p must give, whatever happened before *)
Definition pure_run (m : model) (s : solver) (p : params) : result (run_result O) :=
  do m' <- finalize m;
  runner_run {| r_model := m'; r_solver := s; r_dyn := None; r_base := p ++ m_defaults m';
                r_defaults := m_defaults m' |} p.

End Api.

Arguments a_model {O} _.
Arguments a_runner {O} _.
Arguments a_handles {O} _.
Arguments a_last {O} _.
