(* The graph objects (computegraph Variables / Functions / Data) a build program can put at
   a parameterisable site, as a first-order expression language, and its evaluation.
   Literals are rationals (the build programs only contain rationals); evaluation is generic
   in the numeric interface. *)
From Coq Require Import QArith List String Bool.
Import ListNotations.
From S2 Require Import Base.Num Base.Arr.
Local Open Scope nat_scope.


Inductive expr : Type :=
| EConst (q : Q)
| EParam (k : string)
| ETime
| EComp (i : nat)                 (* CompartmentValues[i] *)
| EAdd (a b : expr)
| ESub (a b : expr)
| EMul (a b : expr)
| EDiv (a b : expr)
| EPiecewise (x : expr) (bps : list expr) (vals : list expr)   (* get_piecewise_function *)
| ELinear (x : expr) (xs : list expr) (ys : list expr).        (* get_linear_interpolation_function *)

Section Eval.
Variable O : NumOps.
Notation F := (F O).

Definition env := string -> F.

(* number of breakpoints <= x  ==  (x >= points).sum() for sorted points; the executable
   binary search of functions/util.py lives in Model/TimeFns.v and is proved equal to this *)
Definition count_le (x : F) (pts : list F) : nat :=
  List.length (filter (fun p => fleb O p x) pts).

Definition interp_linear (x : F) (xs ys : list F) : F :=
  let d := f0 O in
  let n := List.length xs in
  if fleb O x (nth 0 xs d) then nth 0 ys d
  else if negb (fltb O x (nth (n - 1) xs d)) then nth (n - 1) ys d
  else
    let i := count_le x xs - 1 in
    let x0 := nth i xs d in let x1 := nth (S i) xs d in
    let y0 := nth i ys d in let y1 := nth (S i) ys d in
    fadd O y0 (fmul O (fdiv O (fsub O x x0) (fsub O x1 x0)) (fsub O y1 y0)).

Fixpoint eval (p : env) (t : F) (x : list F) (e : expr) : F :=
  match e with
  | EConst q => of_Q O q
  | EParam k => p k
  | ETime => t
  | EComp i => get_clamp (f0 O) x i
  | EAdd a b => fadd O (eval p t x a) (eval p t x b)
  | ESub a b => fsub O (eval p t x a) (eval p t x b)
  | EMul a b => fmul O (eval p t x a) (eval p t x b)
  | EDiv a b => fdiv O (eval p t x a) (eval p t x b)
  | EPiecewise xe bps vals =>
      let xv := eval p t x xe in
      let bs := map (eval p t x) bps in
      let vs := map (eval p t x) vals in
      get_clamp (f0 O) vs (count_le xv bs)
  | ELinear xe xs ys =>
      interp_linear (eval p t x xe) (map (eval p t x) xs) (map (eval p t x) ys)
  end.

End Eval.

(* does the expression read the time or the state? (membership in the timestep graph) *)
Fixpoint mentions_mv (e : expr) : bool :=
  match e with
  | EConst _ | EParam _ => false
  | ETime | EComp _ => true
  | EAdd a b | ESub a b | EMul a b | EDiv a b => mentions_mv a || mentions_mv b
  | EPiecewise x bps vals => mentions_mv x || existsb mentions_mv bps || existsb mentions_mv vals
  | ELinear x xs ys => mentions_mv x || existsb mentions_mv xs || existsb mentions_mv ys
  end.

Fixpoint params_of (e : expr) : list string :=
  match e with
  | EConst _ | ETime | EComp _ => []
  | EParam k => [k]
  | EAdd a b | ESub a b | EMul a b | EDiv a b => params_of a ++ params_of b
  | EPiecewise x bps vals => params_of x ++ flat_map params_of bps ++ flat_map params_of vals
  | ELinear x xs ys => params_of x ++ flat_map params_of xs ++ flat_map params_of ys
  end.

(* replace a named parameter by a literal *)
Fixpoint subst (k : string) (v : Q) (e : expr) : expr :=
  match e with
  | EParam k' => if String.eqb k k' then EConst v else e
  | EConst _ | ETime | EComp _ => e
  | EAdd a b => EAdd (subst k v a) (subst k v b)
  | ESub a b => ESub (subst k v a) (subst k v b)
  | EMul a b => EMul (subst k v a) (subst k v b)
  | EDiv a b => EDiv (subst k v a) (subst k v b)
  | EPiecewise x bps vals => EPiecewise (subst k v x) (map (subst k v) bps) (map (subst k v) vals)
  | ELinear x xs ys => ELinear (subst k v x) (map (subst k v) xs) (map (subst k v) ys)
  end.

(* structural equality (computegraph groups flows by equal realised expression) *)
Fixpoint expr_eqb (a b : expr) : bool :=
  let fix list_eqb (l1 l2 : list expr) : bool :=
    match l1, l2 with
    | [], [] => true
    | x :: t1, y :: t2 => expr_eqb x y && list_eqb t1 t2
    | _, _ => false
    end in
  match a, b with
  | EConst p, EConst q => Qeq_bool p q
  | EParam k, EParam k' => String.eqb k k'
  | ETime, ETime => true
  | EComp i, EComp j => Nat.eqb i j
  | EAdd a1 a2, EAdd b1 b2 | ESub a1 a2, ESub b1 b2
  | EMul a1 a2, EMul b1 b2 | EDiv a1 a2, EDiv b1 b2 => expr_eqb a1 b1 && expr_eqb a2 b2
  | EPiecewise x1 b1 v1, EPiecewise x2 b2 v2 => expr_eqb x1 x2 && list_eqb b1 b2 && list_eqb v1 v2
  | ELinear x1 b1 v1, ELinear x2 b2 v2 => expr_eqb x1 x2 && list_eqb b1 b2 && list_eqb v1 v2
  | _, _ => false
  end.
