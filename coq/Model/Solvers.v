(* Fixed-step solvers of runner/jax/solvers.py as recurrences over lists.
   [euler] and [rk4] are the hand-written models; the translator regenerates the step bodies
   from the source into Gen/SolversGen.v and Proofs/SolversBridge.v proves them equal. *)
From Coq Require Import QArith List String Bool Arith.
Import ListNotations.
From S2 Require Import Base.Num Base.Arr.
Local Open Scope nat_scope.

Section Solvers.
Variable O : NumOps.
Notation F := (F O).

Definition rhs := F -> list F -> list F.     (* get_comp_rates(comp_vals, t) *)

Definition two : F := fadd O (f1 O) (f1 O).
Definition six : F := fadd O two (fadd O two two).

Definition euler_step (f : rhs) (h t : F) (y : list F) : list F :=
  vadd O y (vscale O h (f t y)).

Definition rk4_step (f : rhs) (h t : F) (y : list F) : list F :=
  let k1 := f t y in
  let k2 := f (fadd O t (fdiv O h two)) (vadd O y (vscale O (fdiv O h two) k1)) in
  let k3 := f (fadd O t (fdiv O h two)) (vadd O y (vscale O (fdiv O h two) k2)) in
  let k4 := f (fadd O t h) (vadd O y (vscale O h k3)) in
  vadd O y (vscale O (fdiv O h six)
                   (vadd O (vadd O (vadd O k1 (vscale O two k2)) (vscale O two k3)) k4)).

(* rows 0..n of a fixed-step solve; times[i] = t0 + i*h *)
Fixpoint iterate_steps (step : F -> list F -> list F) (h t : F) (y : list F) (n : nat) : list (list F) :=
  match n with
  | 0 => [y]
  | S n' => y :: iterate_steps step h (fadd O t h) (step t y) n'
  end.

Definition solve_fixed (step : rhs -> F -> F -> list F -> list F) (f : rhs) (t0 h : F) (y0 : list F) (nsteps : nat)
  : list (list F) :=
  iterate_steps (step f h) h t0 y0 nsteps.

End Solvers.
