(* Integer-indexed array primitives targeted by the translator (harness/py2coq.py):
   x[i] with a traced integer index (negative indices wrap, out-of-range is clamped),
   jnp.diff, and lax.while_loop with explicit fuel. *)
From Coq Require Import QArith ZArith List Bool.
Import ListNotations.
From S2 Require Import Base.Num Base.Arr.

Definition zget (O : NumOps) (l : list (F O)) (i : Z) : F O :=
  let n := Z.of_nat (List.length l) in
  let j := if Z.ltb i 0 then Z.add i n else i in
  get_clamp (f0 O) l (Z.to_nat (Z.max 0 j)).

Definition zdiff (O : NumOps) (l : list (F O)) : list (F O) :=
  zip_with (fun a b => fsub O b a) l (tl l).

(* lax.while_loop(cond, body, init) with fuel: stops when the condition is false or the fuel is out *)
Fixpoint zwhile {S : Type} (fuel : nat) (cond : S -> bool) (body : S -> S) (st : S) : S :=
  match fuel with
  | O => st
  | Datatypes.S fuel' => if cond st then zwhile fuel' cond body (body st) else st
  end.
