(* Lists as arrays, with the JAX semantics the code relies on:
   gathers clamp out-of-range indices, scatters drop them, updates are functional. *)
From Coq Require Import List Arith Bool Lia QArith.
Import ListNotations.
From S2 Require Import Base.Num.

Section Arr.
Context {A : Type}.

(* x[i] with i clamped to the last element (d only for the empty array) *)
Definition get_clamp (d : A) (l : list A) (i : nat) : A :=
  nth (Nat.min i (length l - 1)) l d.

Definition gather (d : A) (l : list A) (idx : list nat) : list A :=
  map (get_clamp d l) idx.

(* x.at[i].set(v): out-of-range dropped *)
Fixpoint set_nth (l : list A) (i : nat) (v : A) : list A :=
  match l, i with
  | [], _ => []
  | _ :: t, O => v :: t
  | h :: t, S i' => h :: set_nth t i' v
  end.

(* x.at[idx].set(vals) for an index list; later writes win *)
Fixpoint scatter_set (l : list A) (idx : list nat) (vals : list A) : list A :=
  match idx, vals with
  | i :: idx', v :: vals' => scatter_set (set_nth l i v) idx' vals'
  | _, _ => l
  end.

Definition scatter_const (l : list A) (idx : list nat) (v : A) : list A :=
  fold_left (fun acc i => set_nth acc i v) idx l.

(* indices of the elements satisfying p, in order *)
Fixpoint find_indices_from (p : A -> bool) (l : list A) (k : nat) : list nat :=
  match l with
  | [] => []
  | h :: t => if p h then k :: find_indices_from p t (S k) else find_indices_from p t (S k)
  end.
Definition find_indices (p : A -> bool) (l : list A) : list nat := find_indices_from p l 0.

Fixpoint index_of_from (p : A -> bool) (l : list A) (k : nat) : option nat :=
  match l with
  | [] => None
  | h :: t => if p h then Some k else index_of_from p t (S k)
  end.
Definition index_of (p : A -> bool) (l : list A) : option nat := index_of_from p l 0.

Fixpoint chunk_fuel (fuel k : nat) (l : list A) : list (list A) :=
  match fuel with
  | O => []
  | S fuel' => match l with
               | [] => []
               | _ => firstn k l :: chunk_fuel fuel' k (skipn k l)
               end
  end.
(* reshape((n, k)) of a flat list: rows of length k *)
Definition chunk (k : nat) (l : list A) : list (list A) := chunk_fuel (length l) k l.

Fixpoint zip_with {B C} (f : A -> B -> C) (l1 : list A) (l2 : list B) : list C :=
  match l1, l2 with
  | a :: t1, b :: t2 => f a b :: zip_with f t1 t2
  | _, _ => []
  end.

Fixpoint last_some (l : list (option A)) : option A :=
  match l with
  | [] => None
  | h :: t => match last_some t with Some x => Some x | None => h end
  end.

End Arr.

Fixpoint enumerate_from {A} (k : nat) (l : list A) : list (nat * A) :=
  match l with [] => [] | h :: t => (k, h) :: enumerate_from (S k) t end.
Definition enumerate {A} (l : list A) := enumerate_from 0 l.

Section NumArr.
Variable O : NumOps.
Notation F := (F O).

Definition fsum (l : list F) : F := fold_right (fadd O) (f0 O) l.
Definition vadd (a b : list F) : list F := zip_with (fadd O) a b.
Definition vsub (a b : list F) : list F := zip_with (fsub O) a b.
Definition vmul (a b : list F) : list F := zip_with (fmul O) a b.
Definition vdiv (a b : list F) : list F := zip_with (fdiv O) a b.
Definition vscale (k : F) (a : list F) : list F := map (fmul O k) a.
Definition vdivs (a : list F) (k : F) : list F := map (fun x => fdiv O x k) a.
Definition dot (a b : list F) : F := fsum (vmul a b).
Definition matvec (m : list (list F)) (v : list F) : list F := map (fun row => dot row v) m.
Definition vclean (a : list F) : list F := map (fclean O) a.
Definition of_nat_F (n : nat) : F := of_Q O (inject_Z (Z.of_nat n)).

(* Kronecker product, numpy.kron(a, b): block (i,j) = a[i][j] * b *)
Definition kron (a b : list (list F)) : list (list F) :=
  flat_map (fun ra => map (fun rb => flat_map (fun x => map (fmul O x) rb) ra) b) a.

End NumArr.
