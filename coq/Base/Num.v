(* Numeric interface of the model: an abstract field with order and the two non-field
   primitives the code uses (clip negative to zero; embedding of rational literals).
   Definitions only need the operations [NumOps]; proofs assume [NumTheory].
   Instances: Qc (executable, used by extraction / vm_compute).  *)
From Coq Require Import QArith Qcanon Field List Bool.
Import ListNotations.

Record NumOps := {
  F : Type;
  f0 : F; f1 : F;
  fadd : F -> F -> F;
  fmul : F -> F -> F;
  fsub : F -> F -> F;
  fopp : F -> F;
  fdiv : F -> F -> F;
  finv : F -> F;
  fltb : F -> F -> bool;        (* x < y *)
  of_Q : Q -> F                 (* rational literals of a build program *)
}.

Definition fclean (O : NumOps) (x : F O) : F O := if fltb O x (f0 O) then f0 O else x.
Definition fleb (O : NumOps) (x y : F O) : bool := negb (fltb O y x).

Record NumTheory (O : NumOps) := {
  fle : F O -> F O -> Prop;
  Fth : field_theory (f0 O) (f1 O) (fadd O) (fmul O) (fsub O) (fopp O) (fdiv O) (finv O) eq;
  fle_refl : forall x, fle x x;
  fle_trans : forall x y z, fle x y -> fle y z -> fle x z;
  fle_antisym : forall x y, fle x y -> fle y x -> x = y;
  fle_total : forall x y, fle x y \/ fle y x;
  feq_dec : forall x y : F O, {x = y} + {x <> y};
  fle_add : forall x y z, fle x y -> fle (fadd O x z) (fadd O y z);
  fle_mul : forall x y, fle (f0 O) x -> fle (f0 O) y -> fle (f0 O) (fmul O x y);
  fltb_spec : forall x y, fltb O x y = true <-> (fle x y /\ x <> y);
  of_Q_0 : of_Q O 0%Q = f0 O;
  of_Q_1 : of_Q O 1%Q = f1 O;
  of_Q_add : forall a b, of_Q O (a + b)%Q = fadd O (of_Q O a) (of_Q O b);
  of_Q_mul : forall a b, of_Q O (a * b)%Q = fmul O (of_Q O a) (of_Q O b);
  of_Q_opp : forall a, of_Q O (- a)%Q = fopp O (of_Q O a);
  of_Q_inv : forall a, ~ (a == 0)%Q -> of_Q O (/ a)%Q = finv O (of_Q O a);
  of_Q_eq : forall a b, (a == b)%Q -> of_Q O a = of_Q O b;
  of_Q_le : forall a b, (a <= b)%Q -> fle (of_Q O a) (of_Q O b)
}.

(* ------------------------------------------------------------------ Qc instance *)
Definition Qc_ltb (x y : Qc) : bool :=
  match (x ?= y)%Qc with Lt => true | _ => false end.

Definition QcOps : NumOps := {|
  F := Qc; f0 := 0%Qc; f1 := 1%Qc;
  fadd := Qcplus; fmul := Qcmult; fsub := Qcminus; fopp := Qcopp;
  fdiv := Qcdiv; finv := Qcinv; fltb := Qc_ltb; of_Q := Q2Qc |}.
